"""Generate Verus units from the macro-expanded real source + contract files.

The only executable text that is verified is what `extract_fn` cuts out of rustc's expansion of the
working tree and transforms with the logged rewrite rules R1..; contract clauses come from
/verif/contracts/*.vc and are spliced at anchors.  Anything unexpected raises GenError -> exit 2.
"""
import hashlib
import os
import re
import sys

import rtok
from rtok import tokenize, match_close, norm, render, join


class GenError(Exception):
    """lost anchor / unsupported construct: the check is undecided (exit 2), never an alarm"""


# ------------------------------------------------------------------ contract files

class FnContract:
    def __init__(self, path):
        self.path = path
        self.props = []
        self.ret = "r"
        self.requires = []      # list of (label, text)
        self.ensures = []
        self.entry = []         # raw lines
        self.loops = {}         # n -> dict(invariant=[(label,text)], decreases=str, top=[..], bottom=[..], ensures=[...], kind)
        self.inserts = []       # (where 'before'|'after', nth, pattern tokens, lines)
        self.subst = []         # (pattern tokens, replacement tokens)
        self.sig = None         # optional explicit signature override (tokens) - must match mechanically derived one
        self.mode = "verify"    # verify | trusted (external_body: contract assumed here, proved elsewhere e.g. by Kani)
        self.trusted_by = None
        self.opts = {}
        self.src = None
        self.attrs = []         # extra verus attributes e.g. #[verifier::rlimit(50)]
        self.outlines = []      # R30: dict(nth, pat, call, lines): one statement moved into a helper fn with its own contract
        self.decreases = None


HINT_LABEL = re.compile(r"^#([A-Za-z0-9_.\-]+):\s*(.*)$")


def hint_asserts(c):
    """labels of the *named* assertions inside a contract's proof hints (`#label: assert(..);` on its own line).
    They state intermediate facts of the property itself (e.g. 'the bytes written so far are the first k properties'),
    so a failure is reported as a failed named obligation, unlike an anonymous proof hint."""
    out = []
    groups = [c.entry] + [ins[3] for ins in c.inserts] + [o["lines"] for o in c.outlines]
    for l in c.loops.values():
        groups += [l["top"], l["bottom"], l.get("after", [])]
    for g in groups:
        for ln in g:
            m = HINT_LABEL.match(ln.strip())
            if m:
                out.append(m.group(1))
    return out


def parse_clauses(lines, where):
    """lines of a clause block: `#label: text` starts a clause; following lines continue it."""
    out = []
    cur = None
    for ln in lines:
        s = ln.strip()
        if not s:
            continue
        m = re.match(r"#([A-Za-z0-9_.\-]+):\s*(.*)$", s)
        if m:
            if cur:
                out.append(tuple(cur))
            cur = [m.group(1), m.group(2)]
        else:
            if cur is None:
                raise GenError("%s: clause text before a #label: %r" % (where, s))
            cur[1] += "\n        " + s
    if cur:
        out.append(tuple(cur))
    for lab, txt in out:
        t = txt.rstrip()
        if t.endswith(","):
            raise GenError("%s: clause #%s must not end with a comma" % (where, lab))
    return out


def parse_vc(path):
    """returns list of FnContract, plus raw `@spec` blocks (verbatim verus text placed in module `base`)"""
    fns = []
    specs = []      # list of (kind, arg, text): kind in spec|ax|implspec|type
    cur = None
    spec_kind = ["spec", None]
    section = None
    buf = []
    loopn = None
    ins = None

    def close_section():
        nonlocal section, buf, loopn, ins
        if cur is None and section == "spec":
            specs.append((spec_kind[0], spec_kind[1], "\n".join(buf)))
        elif cur is not None and section:
            where = "%s:%s" % (os.path.basename(path), cur.path)
            if section == "requires":
                cur.requires += parse_clauses(buf, where)
            elif section == "ensures":
                cur.ensures += parse_clauses(buf, where)
            elif section == "entry":
                cur.entry += buf
            elif section == "invariant":
                cur.loops[loopn]["invariant"] += parse_clauses(buf, where)
            elif section == "loop_ensures":
                cur.loops[loopn]["ensures"] += parse_clauses(buf, where)
            elif section == "top":
                cur.loops[loopn]["top"] += buf
            elif section == "bottom":
                cur.loops[loopn]["bottom"] += buf
            elif section == "after_loop":
                cur.loops[loopn].setdefault("after", [])
                cur.loops[loopn]["after"] += buf
            elif section == "insert":
                ins[3].extend(buf)
            elif section == "outline":
                cur.outlines[-1]["lines"].extend(buf)
        section = None
        buf = []

    for raw in open(path).read().split("\n"):
        s = raw.strip()
        if s.startswith("##"):
            continue
        if s.startswith("@"):
            parts = s.split(None, 1)
            key = parts[0]
            arg = parts[1] if len(parts) > 1 else ""
            if key in ("@spec", "@ax", "@implspec", "@lemmas"):
                close_section()
                if cur is not None:
                    raise GenError("%s inside @fn in %s" % (key, path))
                section = "spec"
                spec_kind[0] = key[1:]
                spec_kind[1] = arg.strip()
                continue
            if key == "@derived":
                close_section()
                specs.append(("derived", arg.strip(), ""))
                continue
            if key == "@const":
                close_section()
                specs.append(("const", arg.strip(), ""))
                continue
            if key == "@type":
                close_section()
                if cur is not None:
                    raise GenError("@type inside @fn in " + path)
                a = arg.split()
                specs.append(("type", a[0], " ".join(a[1:])))
                continue
            if key == "@endspec":
                close_section()
                continue
            if key == "@fn":
                close_section()
                cur = FnContract(arg.strip())
                cur.src = path
                fns.append(cur)
                continue
            if key == "@end":
                close_section()
                cur = None
                continue
            if cur is None:
                raise GenError("directive %s outside @fn in %s" % (key, path))
            close_section()
            if key == "@props":
                cur.props = arg.split()
            elif key == "@ret":
                cur.ret = arg.strip()
            elif key == "@trusted":
                cur.mode = "trusted"
                cur.trusted_by = arg.strip()
            elif key == "@attr":
                cur.attrs.append(arg.strip())
            elif key == "@opt":
                k, _, v = arg.partition("=")
                cur.opts[k.strip()] = v.strip() or "1"
            elif key == "@fn_decreases":
                cur.decreases = arg.strip()
            elif key in ("@requires", "@ensures", "@entry"):
                section = key[1:]
            elif key == "@loop":
                a = arg.split()
                loopn = int(a[0])
                cur.loops.setdefault(loopn, dict(invariant=[], decreases=None, top=[], bottom=[], ensures=[],
                                                 except_break=False))
            elif key == "@invariant":
                section = "invariant"
            elif key == "@invariant_except_break":
                section = "invariant"
                cur.loops[loopn]["except_break"] = True
            elif key == "@loop_ensures":
                section = "loop_ensures"
            elif key == "@decreases":
                cur.loops[loopn]["decreases"] = arg.strip()
            elif key == "@top":
                section = "top"
            elif key == "@bottom":
                section = "bottom"
            elif key == "@after_loop":
                section = "after_loop"
            elif key in ("@before", "@after"):
                m = re.match(r"(?:(\d+)\s+)?`(.*)`\s*$", arg)
                if not m:
                    raise GenError("bad %s directive in %s: %s" % (key, path, arg))
                ins = (key[1:], int(m.group(1) or 1), tokenize(m.group(2)), [])
                cur.inserts.append(ins)
                section = "insert"
            elif key == "@outline":
                m = re.match(r"(?:(\d+)\s+)?`(.*)`\s*=>\s*`(.*)`\s*$", arg)
                if not m:
                    raise GenError("bad @outline directive in %s: %s" % (path, arg))
                cur.outlines.append(dict(nth=int(m.group(1) or 1), pat=tokenize(m.group(2)), call=tokenize(m.group(3)), lines=[]))
                section = "outline"
            elif key == "@subst":
                m = re.match(r"`(.*)`\s*=>\s*`(.*)`\s*$", arg)
                if not m:
                    raise GenError("bad @subst in %s: %s" % (path, arg))
                cur.subst.append((tokenize(m.group(1)), tokenize(m.group(2))))
            else:
                raise GenError("unknown directive %s in %s" % (key, path))
            continue
        if section:
            buf.append(raw)
    close_section()
    return fns, specs


# ------------------------------------------------------------------ rewrite rules

def find_seq(toks, pat, start=0):
    n, m = len(toks), len(pat)
    i = start
    while i + m <= n:
        if toks[i:i + m] == pat:
            return i
        i += 1
    return -1


def replace_all(toks, pat, rep, log, rule):
    out = []
    i = 0
    cnt = 0
    m = len(pat)
    while i < len(toks):
        if toks[i:i + m] == pat:
            out.extend(rep)
            i += m
            cnt += 1
        else:
            out.append(toks[i])
            i += 1
    if cnt:
        log.append((rule, cnt))
    return out


def expr_start_back(toks, j):
    """index where the postfix-expression ending at toks[j-1] starts (walks back over a.b.c(..)[..] chains)"""
    i = j
    while i > 0:
        t = toks[i - 1]
        if t in (")", "]"):
            # find matching opener
            depth = 0
            k = i - 1
            while k >= 0:
                if toks[k] in rtok.CLOSE:
                    depth += 1
                elif toks[k] in rtok.OPEN:
                    depth -= 1
                    if depth == 0:
                        break
                k -= 1
            i = k
            continue
        if re.match(r"[A-Za-z_][A-Za-z0-9_]*$", t) or re.match(r"[0-9]", t):
            i -= 1
            if i > 0 and toks[i - 1] in (".", "::"):
                i -= 1
                continue
            break
        break
    return i


class Counter:
    def __init__(self):
        self.n = 0

    def next(self):
        self.n += 1
        return self.n


def rw_common(toks, log):
    """token-level rules applied to whole fn items (signature + body)"""
    # R1 de-async
    t2 = []
    i = 0
    c_async = c_await = 0
    while i < len(toks):
        if toks[i] == "async" and i + 1 < len(toks) and toks[i + 1] == "fn":
            c_async += 1
            i += 1
            continue
        if toks[i] == "." and i + 1 < len(toks) and toks[i + 1] == "await":
            c_await += 1
            i += 2
            continue
        t2.append(toks[i])
        i += 1
    if c_async or c_await:
        log.append(("R1 de-async (async fn -> fn, .await erased)", c_async + c_await))
    toks = t2
    # R2/R3 trait bounds
    toks = replace_all(toks, ["AsyncRead", "+", "Unpin"], ["IoRead"], log, "R2 AsyncRead+Unpin -> IoRead")
    toks = replace_all(toks, ["AsyncWrite", "+", "Unpin"], ["IoWrite"], log, "R3 AsyncWrite+Unpin -> IoWrite")
    toks = replace_all(toks, ["io", "::", "Write"], ["IoWrite"], log, "R3 io::Write -> IoWrite")
    # R4 closure wildcard
    toks = replace_all(toks, ["|", "_", "|"], ["|", "_e", "|"], log, "R4 |_| -> |_e|")
    # R5 from_be_bytes
    toks = replace_all(toks, ["u16", "::", "from_be_bytes"], ["u16_from_be_bytes"], log, "R5 u16::from_be_bytes wrapper")
    toks = replace_all(toks, ["u32", "::", "from_be_bytes"], ["u32_from_be_bytes"], log, "R5 u32::from_be_bytes wrapper")
    # R17 io::Error Display
    toks = replace_all(toks, ["err", ".", "to_string", "(", ")"], ["err_to_string", "(", "&", "err", ")"], log,
                       "R17 err.to_string() -> err_to_string(&err)")
    toks = replace_all(toks, ["u8", "::", "from", "("], ["u8_from_bool", "("], log, "R26 u8::from(bool) -> u8_from_bool wrapper")
    # R31 RECV.starts_with('c') (char-literal pattern) -> str_starts_with_char(&RECV, 'c')   (trusted wrapper in prelude/base.rs, A4)
    cnt31 = 0
    i = 0
    while i + 5 < len(toks):
        if toks[i] == "." and toks[i + 1] == "starts_with" and toks[i + 2] == "(" and toks[i + 3].startswith("'") and toks[i + 3].endswith("'") and len(toks[i + 3]) >= 3 and toks[i + 4] == ")":
            st = expr_start_back(toks, i)
            if st < i:
                recv = toks[st:i]
                toks = toks[:st] + ["str_starts_with_char", "(", "&"] + recv + [",", toks[i + 3], ")"] + toks[i + 5:]
                cnt31 += 1
                i = st + 5 + len(recv)
                continue
        i += 1
    if cnt31:
        log.append(("R31 str.starts_with(char literal) -> str_starts_with_char wrapper", cnt31))
    # R32 RECV.take(N).read_to_end(&mut V) -> RECV.take_read_to_end(N, &mut V)   (IoRead method with a trusted contract, A2)
    cnt32 = 0
    i = 0
    while i + 3 < len(toks):
        if toks[i] == "." and toks[i + 1] == "take" and toks[i + 2] == "(":
            j = rtok.match_close(toks, i + 2) if hasattr(rtok, "match_close") else None
            if j is None:
                depth = 0
                j = i + 2
                while j < len(toks):
                    if toks[j] in rtok.OPEN:
                        depth += 1
                    elif toks[j] in rtok.CLOSE:
                        depth -= 1
                        if depth == 0:
                            break
                    j += 1
            if j + 3 < len(toks) and toks[j + 1] == "." and toks[j + 2] == "read_to_end" and toks[j + 3] == "(":
                arg = toks[i + 3:j]
                toks = toks[:i] + [".", "take_read_to_end", "("] + arg + [","] + toks[j + 4:]
                cnt32 += 1
        i += 1
    if cnt32:
        log.append(("R32 reader.take(n).read_to_end(&mut v) -> reader.take_read_to_end(n, &mut v)", cnt32))
    # block_on(E) -> E  (after R1 the argument is a plain call)
    toks = replace_all(toks, ["block_on", "("], ["("], log, "R1b block_on(f) -> (f)")
    # crate:: paths: everything lives in one flat module
    toks = replace_all(toks, ["crate", "::", "v5", "::"], [], log, "R18 path flattening crate::v5::")
    toks = replace_all(toks, ["crate", "::"], [], log, "R18 path flattening crate::")
    toks = replace_all(toks, ["core", "::", "u16", "::", "MAX"], ["u16", "::", "MAX"], log, "R18 core::u16::MAX")
    toks = rw_std_macros(toks, log)
    toks = rw_result_adapters(toks, log)
    return toks


def rw_result_adapters(toks, log):
    """R21: RECV.map_err(|P| BODY) -> (match RECV { Ok(ok_v) => Ok(ok_v), Err(P) => Err(BODY) })
       R22: RECV.map(Into::into)   -> (match RECV { Ok(ok_v) => Ok(ok_v.into()), Err(er_v) => Err(er_v) })
       (Verus does not derive a postcondition for an unannotated closure; A4: these are the std definitions)"""
    while True:
        i = find_seq(toks, [".", "map_err", "(", "|"])
        if i < 0:
            break
        s = expr_start_back(toks, i)
        recv = toks[s:i]
        k = i + 4
        k2 = k
        while toks[k2] != "|":
            k2 += 1
        pat = toks[k:k2]
        close = match_close(toks, i + 2)
        body = toks[k2 + 1:close]
        rep = (["(", "match"] + recv + ["{", "Ok", "(", "ok_v", ")", "=>", "Ok", "(", "ok_v", ")", ",", "Err", "("] + pat +
               [")", "=>", "Err", "("] + body + [")", ",", "}", ")"])
        toks = toks[:s] + rep + toks[close + 1:]
        log.append(("R21 map_err(closure) -> match", 1))
    while True:
        i = find_seq(toks, [".", "map", "(", "Into", "::", "into", ")"])
        if i < 0:
            break
        s = expr_start_back(toks, i)
        recv = toks[s:i]
        rep = (["(", "match"] + recv + ["{", "Ok", "(", "ok_v", ")", "=>", "Ok", "(", "ok_v", ".", "into", "(", ")", ")", ",",
               "Err", "(", "er_v", ")", "=>", "Err", "(", "er_v", ")", ",", "}", ")"])
        toks = toks[:s] + rep + toks[i + 7:]
        log.append(("R22 map(Into::into) -> match", 1))
    return toks


def rw_std_macros(toks, log):
    """undo rustc's expansion of std macros: vec![a; n] (R20), debug_assert!/debug_assert_eq! (R8), unreachable!() (R9)"""
    # R20
    pat = ["::", "alloc", "::", "vec", "::", "from_elem", "("]
    while True:
        i = find_seq(toks, pat)
        if i < 0:
            break
        e = match_close(toks, i + len(pat) - 1)
        args = rtok.split_top(toks[i + len(pat):e])
        if len(args) != 2:
            raise GenError("R20: unexpected from_elem arguments")
        toks = toks[:i] + ["vec", "!", "["] + args[0] + [";"] + args[1] + ["]"] + toks[e + 1:]
        log.append(("R20 ::alloc::vec::from_elem(a, n) -> vec![a; n]", 1))
    # R9
    pat = ["::", "core", "::", "panicking", "::", "panic", "(", '"internal error: entered unreachable code"', ")"]
    toks = replace_all(toks, pat, ["vstd", "::", "pervasive", "::", "unreached", "(", ")"], log,
                       "R9 unreachable!() -> vstd::pervasive::unreached() (requires false)")
    # R8a debug_assert!(cond)
    pat = ["if", "true", "{", "if", "!", "("]
    while True:
        i = find_seq(toks, pat)
        if i < 0:
            break
        ob = i + 2
        cb = match_close(toks, ob)
        pc = match_close(toks, i + 5)
        cond = toks[i + 6:pc]
        inner = toks[pc + 1:cb]
        if "panicking" not in inner:
            raise GenError("R8: `if true { if !(..)` is not a debug_assert expansion")
        end = cb + 1
        if end < len(toks) and toks[end] == ";":
            end += 1
        toks = toks[:i] + ["assert", "("] + cond + [")", ";"] + toks[end:]
        log.append(("R8 debug_assert!(c) -> proof assert(c) (obligation in every profile)", 1))
    # R8b debug_assert_eq!(a, b)
    pat = ["if", "true", "{", "match", "(", "&"]
    while True:
        i = find_seq(toks, pat)
        if i < 0:
            break
        ob = i + 2
        cb = match_close(toks, ob)
        pc = match_close(toks, i + 4)
        args = rtok.split_top(toks[i + 5:pc])
        if len(args) != 2 or args[0][0] != "&" or args[1][0] != "&" or "assert_failed" not in toks[pc:cb]:
            raise GenError("R8: not a debug_assert_eq expansion")
        end = cb + 1
        if end < len(toks) and toks[end] == ";":
            end += 1
        toks = toks[:i] + ["assert", "("] + args[0][1:] + ["=="] + args[1][1:] + [")", ";"] + toks[end:]
        log.append(("R8 debug_assert_eq!(a, b) -> proof assert(a == b) (obligation in every profile)", 1))
    return toks


def rw_sum(toks, log, loopvars):
    """R6: E.iter().map(|p| B).sum::<usize>() -> block with a for loop (later turned into an index loop by R19)"""
    while True:
        pat = [".", "iter", "(", ")", ".", "map", "("]
        i = find_seq(toks, pat)
        if i < 0:
            return toks
        s = expr_start_back(toks, i)
        e_expr = toks[s:i]
        k = i + len(pat)
        if toks[k] != "|":
            raise GenError("R6: unsupported map argument")
        k2 = k + 1
        while toks[k2] != "|":
            k2 += 1
        pat_toks = toks[k + 1:k2]
        close = match_close(toks, i + len(pat) - 1)
        body = toks[k2 + 1:close]
        tail = [".", "sum", "::", "<", "usize", ">", "(", ")"]
        if toks[close + 1:close + 1 + len(tail)] != tail:
            raise GenError("R6: map(..) not followed by .sum::<usize>()")
        rep = (["{", "let", "mut", "sum_acc", ":", "usize", "=", "0", ";", "for"] + pat_toks + ["in"] + e_expr +
               [".", "iter", "(", ")", "{", "sum_acc", "=", "sum_acc", "+", "("] + body + [")", ";", "}", "sum_acc", "}"])
        toks = toks[:s] + rep + toks[close + 1 + len(tail):]
        log.append(("R6 iter().map().sum() -> accumulating for loop", 1))


def rw_contains(toks, log):
    """R10: RECV.contains(|c| BODY) -> { let mut any_hit = false; let cn = RECV.unicode_len(); let mut ci = 0;
             while ci < cn { let c = RECV.get_char(ci); if BODY { any_hit = true; } ci += 1; } any_hit }
       (A5: str::contains(predicate) is true iff some char satisfies it)"""
    while True:
        i = find_seq(toks, [".", "contains", "(", "|"])
        if i < 0:
            return toks
        s0 = expr_start_back(toks, i)
        recv = toks[s0:i]
        k = i + 4
        k2 = k
        while toks[k2] != "|":
            k2 += 1
        var = toks[k:k2]
        close = match_close(toks, i + 2)
        body = toks[k2 + 1:close]
        rep = (["{", "let", "mut", "any_hit", "=", "false", ";", "let", "cn", "="] + recv + [".", "unicode_len", "(", ")", ";",
               "let", "mut", "ci", ":", "usize", "=", "0", ";", "while", "ci", "<", "cn", "{", "let"] + var + ["="] + recv +
               [".", "get_char", "(", "ci", ")", ";", "if"] + body + ["{", "any_hit", "=", "true", ";", "}", "ci", "+=", "1", ";", "}",
               "any_hit", "}"])
        toks = toks[:s0] + rep + toks[close + 1:]
        log.append(("R10 str.contains(closure) -> char loop", 1))


def loop_positions(body):
    """indices of loop keywords in token order; skips `for` inside generics (`for<'a>`) and `impl .. for`"""
    out = []
    for i, t in enumerate(body):
        if t in ("while", "loop"):
            out.append(i)
        elif t == "for" and i + 1 < len(body) and body[i + 1] != "<":
            out.append(i)
    return out


def loop_body_brace(body, i):
    """index of the `{` opening the body of the loop whose keyword is at i"""
    kw = body[i]
    j = i + 1
    if kw == "loop":
        if body[j] != "{":
            raise GenError("loop without brace")
        return j
    if kw == "for":
        # skip pattern up to `in` at depth 0
        depth = 0
        while True:
            t = body[j]
            if t in rtok.OPEN:
                depth += 1
            elif t in rtok.CLOSE:
                depth -= 1
            elif t == "in" and depth == 0:
                break
            j += 1
        j += 1
    depth = 0
    while True:
        t = body[j]
        if t == "{" and depth == 0:
            return j
        if t in ("(", "["):
            depth += 1
        elif t in (")", "]"):
            depth -= 1
        j += 1


def rw_chars_enumerate(body, log):
    """R7: `for (I, C) in RECV.chars().enumerate() { B }` ->
           { let n_chars = RECV.unicode_len(); let mut I: usize = 0; while I < n_chars { let C = RECV.get_char(I); B I += 1; } }
       (A5: Chars/Enumerate yield (index, char) in order; the body must not `continue`)"""
    tail = [".", "chars", "(", ")", ".", "enumerate", "(", ")"]
    while True:
        hit = None
        for i in loop_positions(body):
            if body[i] != "for":
                continue
            ob = loop_body_brace(body, i)
            if body[ob - len(tail):ob] == tail:
                hit = (i, ob)
                break
        if hit is None:
            return body
        i, ob = hit
        j = i + 1
        depth = 0
        while True:
            t = body[j]
            if t in rtok.OPEN:
                depth += 1
            elif t in rtok.CLOSE:
                depth -= 1
            elif t == "in" and depth == 0:
                break
            j += 1
        pat = body[i + 1:j]
        if len(pat) != 5 or pat[0] != "(" or pat[2] != "," or pat[4] != ")":
            raise GenError("R7: unsupported enumerate pattern: " + norm(pat))
        iv, cv = pat[1], pat[3]
        recv = body[j + 1:ob - len(tail)]
        cb = match_close(body, ob)
        inner = body[ob + 1:cb]
        if "continue" in inner:
            raise GenError("R7: loop body uses `continue`")
        rep = (["{", "let", "n_chars", "="] + recv + [".", "unicode_len", "(", ")", ";", "let", "mut", iv, ":", "usize", "=", "0", ";",
               "while", iv, "<", "n_chars", "{", "let", cv, "="] + recv + [".", "get_char", "(", iv, ")", ";"] + inner +
               [iv, "+=", "1", ";", "}", "}"])
        body = body[:i] + rep + body[cb + 1:]
        log.append(("R7 for (i, c) in s.chars().enumerate() -> indexed char loop", 1))


def rw_for_index(body, log):
    """R19: `for PAT in E.iter() {B}` / `for PAT in &E {B}` -> index loop over E
       { let mut idx_k: usize = 0; while idx_k < E.len() { let PAT = &E[idx_k]; B idx_k += 1; } }
       (k = ordinal of the loop among all loops of the function after rewriting)"""
    changed = True
    while changed:
        changed = False
        pos = loop_positions(body)
        for ordinal, i in enumerate(pos, 1):
            if body[i] != "for":
                continue
            # pattern
            j = i + 1
            depth = 0
            while True:
                t = body[j]
                if t in rtok.OPEN:
                    depth += 1
                elif t in rtok.CLOSE:
                    depth -= 1
                elif t == "in" and depth == 0:
                    break
                j += 1
            pat = body[i + 1:j]
            ob = loop_body_brace(body, i)
            it = body[j + 1:ob]
            if it[-4:] == [".", "iter", "(", ")"]:
                coll = it[:-4]
            elif it[0] == "&":
                coll = it[1:]
            else:
                raise GenError("R19: unsupported for-loop iterator: " + norm(it))
            cb = match_close(body, ob)
            inner = body[ob + 1:cb]
            iv = "idx_%d" % ordinal
            rep = (["{", "let", "mut", iv, ":", "usize", "=", "0", ";", "while", iv, "<"] + coll + [".", "len", "(", ")", "{",
                   "let"] + pat + ["=", "&"] + coll + ["[", iv, "]", ";"] + inner + [iv, "+=", "1", ";", "}", "}"])
            body = body[:i] + rep + body[cb + 1:]
            # a trailing `;` after the for-loop block is fine
            log.append(("R19 for-in over slice iter -> index while loop", 1))
            changed = True
            break
    return body


def rw_mut_params(sig, body, log):
    """R14: by-value `mut p: T` -> `p0: T` + `let mut p = p0;`"""
    # locate parameter list
    i = sig.index("fn")
    j = i
    while sig[j] != "(":
        if sig[j] == "<":
            # skip generics
            depth = 0
            while True:
                if sig[j] == "<":
                    depth += 1
                elif sig[j] == ">":
                    depth -= 1
                    if depth == 0:
                        break
                j += 1
        j += 1
    e = match_close(sig, j)
    params = sig[j + 1:e]
    new = []
    rebinds = []
    k = 0
    depth = 0
    at_start = True
    while k < len(params):
        t = params[k]
        if at_start and t == "mut" and k + 2 < len(params) and params[k + 2] == ":":
            name = params[k + 1]
            new.append(name + "0")
            rebinds += ["let", "mut", name, "=", name + "0", ";"]
            k += 2
            at_start = False
            continue
        if t in rtok.OPEN or t == "<":
            depth += 1
        elif t in rtok.CLOSE or t == ">":
            depth -= 1
        at_start = (t == "," and depth == 0)
        new.append(t)
        k += 1
    if rebinds:
        log.append(("R14 mut by-value parameter rebinding", len(rebinds) // 6))
        sig = sig[:j + 1] + new + sig[e:]
        body = rebinds + body
    return sig, body


def named_return(sig, ret):
    """`-> T` becomes `-> (ret: T)`; strips a where clause check (none expected)"""
    # find the top-level `->` after the parameter list
    i = sig.index("fn")
    j = i
    while sig[j] != "(":
        if sig[j] == "<":
            depth = 0
            while True:
                if sig[j] == "<":
                    depth += 1
                elif sig[j] == ">":
                    depth -= 1
                    if depth == 0:
                        break
                j += 1
        j += 1
    e = match_close(sig, j)
    rest = sig[e + 1:]
    if not rest:
        return sig, False
    if rest[0] != "->":
        raise GenError("unexpected tokens after parameter list: " + norm(rest))
    if "where" in rest:
        w = rest.index("where")
        rty, wh = rest[1:w], rest[w:]
    else:
        rty, wh = rest[1:], []
    return sig[:e + 1] + ["->", "(", ret, ":"] + rty + [")"] + wh, True


def strip_quals(sig):
    """visibility -> pub (R15); keeps `fn ...`"""
    i = sig.index("fn")
    return ["pub"] + sig[i:]


# ------------------------------------------------------------------ emission

class Emitter:
    def __init__(self):
        self.lines = []
        self.origin = {}   # line number (1-based) -> obligation id

    def add(self, text, origin=None):
        for ln in text.split("\n"):
            self.lines.append(ln)
            if origin:
                self.origin[len(self.lines)] = origin

    def text(self):
        return "\n".join(self.lines) + "\n"


def clause_block(em, kw, clauses, fnid, kind, indent="    "):
    if not clauses:
        return
    em.add(indent + kw)
    for lab, txt in clauses:
        oid = "%s:%s#%s" % (fnid, kind, lab)
        em.add(indent + "    " + txt + ",", origin=oid)


def short_id(path):
    p = path.replace("{", "").replace("}", "").replace(" ", "")
    p = p.replace("Encodablefor", "").replace("common::utils::", "").replace("common::types::", "")
    return p


def extract_fn(idx, c, rewrites, sig_only=False):
    """returns (sig tokens incl. named return, body tokens with splices applied as text lines)"""
    if c.path not in idx:
        raise GenError("lost anchor: function %s not found in the expanded source" % c.path)
    it = idx[c.path]
    if it.kind != "fn" or it.body is None:
        raise GenError("lost anchor: %s is not a function with a body" % c.path)
    log = []
    sig = rw_common(list(it.header), log)
    body = rw_common(list(it.body), log) if not sig_only else []
    for pat, rep in c.subst:
        sig = replace_all(sig, pat, rep, log, "R5s @subst (signature) `%s` -> `%s`" % (norm(pat), norm(rep)))
    for pat, rep in ([] if sig_only else c.subst):
        before = len(log)
        body = replace_all(body, pat, rep, log, "R5s @subst `%s` -> `%s`" % (norm(pat), norm(rep)))
        if len(log) == before and not any(("`%s`" % norm(pat)) in r for r, _ in log):
            raise GenError("lost anchor: @subst pattern `%s` not found in %s" % (norm(pat), c.path))
    if not sig_only:
        nconst = sum(1 for i, t in enumerate(body) if t == "const" and i + 2 < len(body) and body[i + 2] == ":")
        if nconst:
            body = ["let" if (t == "const" and i + 2 < len(body) and body[i + 2] == ":") else t for i, t in enumerate(body)]
            log.append(("R25 block-local `const X: T = lit;` -> `let X: T = lit;`", nconst))
        body = rw_sum(body, log, None)
        body = rw_contains(body, log)
        body = rw_chars_enumerate(body, log)
        body = rw_for_index(body, log)
    if not sig_only:
        # module-level consts of the function's own module that the body names and no @const line declares (e.g. one
        # introduced by an edit) are extracted verbatim as well, so that such an edit is decided instead of failing to resolve
        mod = c.path.split("::{", 1)[0] if "::{" in c.path else c.path.rsplit("::", 1)[0]
        for i, t in enumerate(it.body):
            if re.match(r"[A-Z][A-Z0-9_]{2,}$", t) and (i == 0 or it.body[i - 1] not in ("::", ".")) and t not in DECLARED_CONSTS:
                k = mod + "::" + t
                if k in idx and idx[k].kind == "const":
                    AUTO_CONSTS[t] = k
    sig, body = rw_mut_params(sig, body, log)
    sig = strip_quals(sig)
    sig, has_ret = named_return(sig, c.ret)
    if c.outlines and not sig_only:
        body = apply_outlines(body, c, short_id(c.path), log)
    rewrites.append((c.path, log))
    src_hash = hashlib.sha256(norm(it.toks).encode()).hexdigest()[:16]
    return sig, body, src_hash


def stmt_end(body, pos, pat):
    """index just past the statement that starts with the tokens `pat` at `pos` (next `;` at bracket depth 0)"""
    end = pos + len(pat)
    depth = sum(1 for t in pat if t in rtok.OPEN) - sum(1 for t in pat if t in rtok.CLOSE)
    while end < len(body):
        t = body[end]
        if t in rtok.OPEN:
            depth += 1
        elif t in rtok.CLOSE:
            if depth == 0:
                break
            depth -= 1
        elif t == ";" and depth == 0:
            end += 1
            break
        end += 1
    return end


AUTO_CONSTS = {}        # NAME -> idx key of a module-level const referenced by an extracted body and not declared with @const
DECLARED_CONSTS = set()
PENDING_HELPERS = []   # (fnid, [(line, origin)]) emitted after the current impl block


def apply_outlines(body, c, fnid, log):
    """R30: move one statement (its tokens unchanged) into a helper fn `h` and call it in place: `S;` -> `<call>`.
    The helper's signature, contract and tail expression are given in the contract file."""
    for o in c.outlines:
        pos = -1
        start = 0
        for _ in range(o["nth"]):
            pos = find_seq(body, o["pat"], start)
            if pos < 0:
                raise GenError("lost anchor: statement `%s` (occurrence %d) to outline not found in %s" % (norm(o["pat"]), o["nth"], c.path))
            start = pos + 1
        end = stmt_end(body, pos, o["pat"])
        stmt = body[pos:end]
        body = body[:pos] + list(o["call"]) + body[end:]
        head = []
        tail = ""
        for ln in o["lines"]:
            st = ln.strip()
            if not st:
                continue
            if st.startswith("tail:"):
                tail = st[5:].strip()
                continue
            m = HINT_LABEL.match(st)
            if m:
                head.append(("        " + m.group(2) + ",", "%s:outlined#%s" % (fnid, m.group(1))))
            else:
                head.append(("    " + st, "%s:body" % fnid))
        lines = head + [("{", "%s:body" % fnid)]
        for ln in render(stmt, indent=0).split("\n"):
            lines.append(("    " + ln, "%s:body" % fnid))
        if tail:
            lines.append(("    " + tail, "%s:body" % fnid))
        lines.append(("}", "%s:body" % fnid))
        PENDING_HELPERS.append((fnid, lines))
        log.append(("R30 statement `%s ..` outlined into a helper fn called in place as `%s`" % (norm(o["pat"])[:60], norm(o["call"])), 1))
    return body


def splice_body(em, body, c, fnid):
    """emit the body with loop contracts and inserted proof text; returns nothing"""
    # 1. compute insertion points (token index -> list of (kind, payload))
    ins_before = {}   # tok index -> list of text blocks emitted before that token

    def add_ins(pos, block):
        ins_before.setdefault(pos, []).append(block)

    loops = loop_positions(body)
    for n, spec in c.loops.items():
        if n < 1 or n > len(loops):
            raise GenError("lost anchor: %s has %d loops, contract names loop %d" % (c.path, len(loops), n))
    for n, i in enumerate(loops, 1):
        if n not in c.loops:
            raise GenError("new loop without contract: loop %d of %s has no @loop entry" % (n, c.path))
        spec = c.loops[n]
        ob = loop_body_brace(body, i)
        add_ins(ob, ("loopspec", n, spec))
        if c.opts.get("bits"):
            # broadcast groups named at function level do not reach into (isolated) loop bodies
            add_ins(ob + 1, ("raw", ["proof { broadcast use crate::base::group_bits8; }"]))
        if spec["top"]:
            add_ins(ob + 1, ("raw", spec["top"]))
        if spec["bottom"]:
            cb = match_close(body, ob)
            add_ins(cb, ("raw", spec["bottom"]))
        if spec.get("after"):
            # hints placed right after the loop statement (an anchor that does not depend on the text of the next statement)
            add_ins(match_close(body, ob) + 1, ("raw", spec["after"]))
    for where, nth, pat, lines in c.inserts:
        pos = -1
        start = 0
        for _ in range(nth):
            pos = find_seq(body, pat, start)
            if pos < 0:
                raise GenError("lost anchor: statement `%s` (occurrence %d) not found in %s" % (norm(pat), nth, c.path))
            start = pos + 1
        if where == "before":
            add_ins(pos, ("raw", lines))
        else:
            end = pos + len(pat)
            if pat[-1] not in (";", "}", "{"):
                # the pattern is a statement prefix: extend to the end of that statement (next `;` at bracket depth 0)
                depth = sum(1 for t in pat if t in rtok.OPEN) - sum(1 for t in pat if t in rtok.CLOSE)
                while end < len(body):
                    t = body[end]
                    if t in rtok.OPEN:
                        depth += 1
                    elif t in rtok.CLOSE:
                        if depth == 0:
                            break
                        depth -= 1
                    elif t == ";" and depth == 0:
                        end += 1
                        break
                    end += 1
            add_ins(end, ("raw", lines))
    # 2. emit: render token chunks between insertion points
    cuts = sorted(ins_before)
    prev = 0
    depth = 1

    def emit_chunk(toks):
        nonlocal depth
        if not toks:
            return
        txt = render(toks, indent=0)
        # maintain indentation roughly
        for ln in txt.split("\n"):
            em.add("    " * max(depth, 0) + ln)
        for t in toks:
            if t == "{":
                depth += 1
            elif t == "}":
                depth -= 1

    if c.opts.get("ext"):
        em.add("    broadcast use crate::base::group_ext;")
    if c.opts.get("prefix"):
        em.add("    broadcast use crate::base::group_prefix;")
    if c.opts.get("bits"):
        em.add("    broadcast use crate::base::group_bits8;")
    def add_hint(indent, ln):
        m = HINT_LABEL.match(ln.strip())
        if m:
            em.add(indent + m.group(2), origin="%s:assert#%s" % (fnid, m.group(1)))
        else:
            em.add(indent + ln.strip(), origin="%s:hint" % fnid)

    if c.entry:
        for ln in c.entry:
            add_hint("    ", ln)
    for pos in cuts:
        emit_chunk(body[prev:pos])
        prev = pos
        for blk in ins_before[pos]:
            if blk[0] == "raw":
                for ln in blk[1]:
                    if ln.strip():
                        add_hint("    " * depth, ln)
            else:
                _, n, spec = blk
                kw = "invariant_except_break" if spec["except_break"] else "invariant"
                clause_block(em, kw, spec["invariant"], fnid, "loop%d-invariant" % n, "    " * depth)
                if spec["ensures"]:
                    clause_block(em, "ensures", spec["ensures"], fnid, "loop%d-ensures" % n, "    " * depth)
                if spec["decreases"]:
                    em.add("    " * depth + "decreases " + spec["decreases"] + ",", origin="%s:loop%d-decreases" % (fnid, n))
    emit_chunk(body[prev:])


def emit_fn(em, idx, c, rewrites, verify=True, in_trait_impl=False):
    fnid = short_id(c.path)
    variant = c.opts.get("variant")
    if variant:
        fnid = fnid + "__" + variant
    sig, body, h = extract_fn(idx, c, rewrites, sig_only=(c.mode == "trusted") or not verify)
    if in_trait_impl:
        # trait impl methods carry no visibility
        if sig[0] == "pub":
            sig = sig[1:]
    if variant:
        # a second contract for the same real body, emitted under another name (`f__<variant>`): used for known findings
        k = sig.index("fn")
        sig = sig[:k + 1] + [sig[k + 1] + "__" + variant] + sig[k + 2:]
    em.add("// ---- %s  [src sha256:%s]  props: %s%s" % (c.path, h, " ".join(c.props), ("  variant: " + variant) if variant else ""))
    trusted = (c.mode == "trusted") or not verify
    if trusted:
        em.add("#[verifier::external_body]")
    for a in c.attrs:
        em.add(a)
    em.add(join(sig), origin="%s:signature" % fnid)
    if not in_trait_impl or True:
        clause_block(em, "requires", c.requires, fnid, "requires")
        clause_block(em, "ensures", c.ensures, fnid, "ensures")
    if c.decreases:
        em.add("    decreases " + c.decreases + ",")
    em.add("{", origin="%s:body" % fnid)
    if trusted:
        em.add("    unimplemented!()")
    else:
        start = len(em.lines)
        splice_body(em, body, c, fnid)
        for ln in range(start + 1, len(em.lines) + 1):
            em.origin.setdefault(ln, "%s:body" % fnid)
    em.add("}", origin="%s:body" % fnid)
    if VACUITY["on"] and c.requires and not trusted and not in_trait_impl:
        # vacuity twin: a proof fn with the same parameters and the same `requires` that claims `false`; it MUST fail
        k = sig.index("fn")
        psig = list(sig)
        psig[k + 1] = "vacuity_twin_" + re.sub(r"[^A-Za-z0-9_]", "_", psig[k + 1])
        # drop the return type and turn `&mut T` parameters into `&T` (proof mode)
        if "->" in psig:
            psig = psig[:psig.index("->")]
        psig2 = []
        i2 = 0
        while i2 < len(psig):
            if psig[i2] == "&" and i2 + 1 < len(psig) and psig[i2 + 1] == "mut":
                psig2.append("&")
                i2 += 2
                continue
            psig2.append(psig[i2])
            i2 += 1
        if psig2[0] == "pub":
            psig2 = psig2[1:]
        em.add("proof " + join(psig2), origin="%s:vacuity-twin" % fnid)
        em.add("    requires")
        for lab, txt in c.requires:
            em.add("        " + re.sub(r"\bold\(([A-Za-z0-9_]+)\)", r"\1", txt) + ",")
        em.add("    ensures false,", origin="%s:vacuity-twin" % fnid)
        em.add("{ }", origin="%s:vacuity-twin" % fnid)
        VACUITY["fns"].append(fnid)
    return h


def extract_type(idx, path, log):
    if path not in idx:
        raise GenError("lost anchor: type %s not found" % path)
    it = idx[path]
    toks = rw_common(list(it.toks), [])
    # R15 all fields public
    out = []
    if it.kind == "struct":
        # tuple struct `pub struct Pid(u16);` or braces
        i = 0
        toks = ["pub"] + toks[toks.index("struct"):]
        if toks[3] == ";":
            return toks, it
        k = 2
        while toks[k] not in ("(", "{"):
            k += 1
        e = match_close(toks, k)
        fields = rtok.split_top(toks[k + 1:e])
        new = []
        for f in fields:
            # drop attributes and visibility
            while f and f[0] == "#":
                f = f[match_close(f, 1) + 1:]
            if f and f[0] == "pub":
                f = f[1:]
                if f and f[0] == "(":
                    f = f[match_close(f, 0) + 1:]
            if f:
                new.append(["pub"] + f)
        mid = []
        for n, f in enumerate(new):
            mid += f + [","]
        toks = toks[:k + 1] + mid + toks[e:]
    elif it.kind == "enum":
        toks = ["pub"] + toks[toks.index("enum"):]
        # drop #[doc]/#[error] attrs on variants
        out2 = []
        i = 0
        while i < len(toks):
            if toks[i] == "#" and toks[i + 1] == "[":
                i = match_close(toks, i + 1) + 1
                continue
            out2.append(toks[i])
            i += 1
        toks = out2
    else:
        raise GenError("type %s is neither struct nor enum" % path)
    return toks, it


# ------------------------------------------------------------------ unit assembly

HEADER = """#![allow(unused_imports, dead_code, unused_variables, unused_mut, unused_parens, unused_braces, unreachable_code, non_snake_case, unused_assignments)]
use vstd::prelude::*;
verus! {
global size_of usize == 8;
"""

MOD_USES = """use vstd::prelude::*;
use vstd::string::StringSliceAdditionalSpecFns;
use std::slice;
use std::io;
use std::sync::Arc;
use std::ops::Deref;
use std::convert::TryFrom;
use std::cmp::Ordering;
"""


def impl_of(path):
    """'a::b::{X for Y}::f' -> ('a::b::{X for Y}', 'f'); free fn -> (None, name)"""
    m = re.match(r"^(.*\{[^}]*\})::([A-Za-z0-9_]+)$", path)
    if m:
        return m.group(1), m.group(2)
    return None, path.rsplit("::", 1)[-1]


def impl_header(idx, ipath, log):
    if ipath not in idx:
        raise GenError("lost anchor: impl block %s not found" % ipath)
    it = idx[ipath]
    hdr = rw_common(list(it.header), log)
    return hdr, it


def assume_proofs(text):
    """imported spec text: lemmas are proved in their home unit; here only their statements are used"""
    return re.sub(r"(?m)^(\s*)(pub\s+)?(broadcast\s+)?proof\s+fn\s", lambda m: m.group(1) + "#[verifier::external_body] " + (m.group(2) or "") + (m.group(3) or "") + "proof fn ", text)


import threading
VACUITY = {"on": False, "fns": []}
_BUILD_LOCK = threading.Lock()


def build_unit(idx, vc_verify, vc_trusted, spec_files, verif_root, only_fns=None, spec_import=(), module_ext=True, vacuity=False):
    # generation is fast; serialise it so that the vacuity switch is not shared between concurrent units
    with _BUILD_LOCK:
        VACUITY["on"] = vacuity
        VACUITY["fns"] = []
        text, origin, info = _build_unit(idx, vc_verify, vc_trusted, spec_files, verif_root, only_fns, spec_import, module_ext)
        info["vacuity_fns"] = list(VACUITY["fns"])
        VACUITY["on"] = False
        return text, origin, info


def _build_unit(idx, vc_verify, vc_trusted, spec_files, verif_root, only_fns=None, spec_import=(), module_ext=True):
    """vc_verify: .vc files whose @fn entries are verified in this unit; vc_trusted: imported as contracts only.
    returns (text, origin map, info dict)"""
    em = Emitter()
    rewrites = []
    fninfo = []
    all_specs = []
    fn_entries = []   # (contract, verify?)
    for f in vc_trusted:
        fns, specs = parse_vc(os.path.join(verif_root, "contracts", f))
        specs = [(k, a, assume_proofs(t) if k in ("spec", "lemmas") else t) for (k, a, t) in specs]
        all_specs += [(f, s) for s in specs]
        fn_entries += [(c, False) for c in fns]
    for f in vc_verify:
        fns, specs = parse_vc(os.path.join(verif_root, "contracts", f))
        all_specs += [(f, s) for s in specs]
        fn_entries += [(c, True) for c in fns]
    AUTO_CONSTS.clear()
    DECLARED_CONSTS.clear()
    DECLARED_CONSTS.update(a.strip().rsplit("::", 1)[-1] for (_f, (k, a, _t)) in all_specs if k == "const")
    em.add(HEADER)
    # ---------------- base
    em.add("pub mod base {")
    em.add(MOD_USES)
    em.add(open(os.path.join(verif_root, "prelude", "base.rs")).read())
    for (f, (kind, arg, text)) in all_specs:
        if kind == "derived":
            # `@derived <type path> Trait..`: the trusted specs of derived impls are only valid if the real type derives them
            a = arg.split()
            mod, ty = a[0].rsplit("::", 1)
            for tr in a[1:]:
                full = {"PartialEq": "core :: cmp :: PartialEq", "Default": "core :: default :: Default"}[tr]
                key = "%s::{%s for %s}" % (mod, full, ty)
                it = idx.get(key)
                if it is None or not any("automatically_derived" in norm(at) for at in it.attrs):
                    raise GenError("lost anchor: %s no longer derives %s (trusted spec of the derived impl would be unfounded)" % (a[0], tr))
        if kind == "const":
            if arg not in idx or idx[arg].kind != "const":
                raise GenError("lost anchor: const %s not found" % arg)
            ct = rw_common(list(idx[arg].toks), [])
            ct = ["pub"] + ct[ct.index("const"):]
            ct = replace_all(ct, [":", "&", "str"], [":", "&", "'static", "str"], [], "R29")
            ct = replace_all(ct, [":", "&", "[", "u8", "]"], [":", "&", "'static", "[", "u8", "]"], [], "R29")
            em.add("// ---- const %s (extracted verbatim)" % arg)
            em.add(join(ct))
        if kind == "type":
            toks, it = extract_type(idx, arg, rewrites)
            em.add("// ---- type %s (extracted; fields made pub, attributes dropped)" % arg)
            if text:
                em.add(text)
            em.add(render(toks))
    for sf in spec_import:
        em.add("// ======== spec file %s (imported: lemmas proved in their home unit)" % sf)
        em.add(assume_proofs(open(os.path.join(verif_root, "spec", sf)).read()))
    for sf in spec_files:
        em.add("// ======== spec file %s" % sf)
        em.add(open(os.path.join(verif_root, "spec", sf)).read())
    for (f, (kind, arg, text)) in all_specs:
        if kind == "spec":
            em.add("// ---- @spec from %s" % f)
            em.add(text)
    emit_group(em, idx, [e for e in fn_entries if e[0].opts.get("module") == "base"], all_specs, rewrites, fninfo)
    em.add("} // mod base")
    # ---------------- ax
    em.add("pub mod ax {")
    em.add(MOD_USES + "use crate::base::*;")
    axnames = []
    for (f, (kind, arg, text)) in all_specs:
        if kind == "ax":
            em.add(text)
            axnames += re.findall(r"broadcast\s+axiom\s+fn\s+([A-Za-z0-9_]+)", text)
    em.add("} // mod ax")
    # ---------------- code
    em.add("pub mod code {")
    em.add(MOD_USES + "use crate::base::*;")
    uses = ["crate::ax::%s" % a for a in axnames]
    # (prelude group_prefix is opt-in per function: `@opt prefix=1`)
    for (f, (kind, arg, text)) in all_specs:
        if kind == "spec":
            for g in re.findall(r"broadcast\s+group\s+([A-Za-z0-9_]+)", text):
                if g == "group_ext" and not module_ext:
                    continue   # quadratic in the number of String/Vec views: opted into per function (`@opt ext=1`)
                uses.append("crate::base::%s" % g)
    if uses:
        em.add("broadcast use {%s};" % ", ".join(uses))
    for (f, (kind, arg, text)) in all_specs:
        if kind == "lemmas":
            em.add("// ---- @lemmas from %s" % f)
            em.add(text)
    emit_group(em, idx, [e for e in fn_entries if e[0].opts.get("module") != "base"], all_specs, rewrites, fninfo)
    if VACUITY["on"]:
        # consistency probe: with every broadcast axiom of the unit in scope, `false` must NOT be provable
        em.add("proof fn consistency_probe()", origin="unit-axioms:vacuity-twin")
        em.add("    ensures false,", origin="unit-axioms:vacuity-twin")
        em.add("{ }", origin="unit-axioms:vacuity-twin")
        VACUITY["fns"].append("unit-axioms")
    for name in sorted(AUTO_CONSTS):
        ct = rw_common(list(idx[AUTO_CONSTS[name]].toks), [])
        ct = ["pub"] + ct[ct.index("const"):]
        ct = replace_all(ct, [":", "&", "str"], [":", "&", "'static", "str"], [], "R29")
        ct = replace_all(ct, [":", "&", "[", "u8", "]"], [":", "&", "'static", "[", "u8", "]"], [], "R29")
        em.add("// ---- const %s (referenced by an extracted body, extracted verbatim)" % AUTO_CONSTS[name])
        em.add(join(ct))
        rewrites.append((AUTO_CONSTS[name], [("module-level const referenced by an extracted function, extracted verbatim", 1)]))
    em.add("} // mod code")
    em.add("} // verus!")
    em.add("fn main() {}")
    return em.text(), em.origin, dict(rewrites=rewrites, fns=fninfo)


def emit_group(em, idx, entries, all_specs, rewrites, fninfo):
    # group by impl block, keep first-appearance order
    order = []
    groups = {}
    for c, verify in entries:
        ip, name = impl_of(c.path)
        key = ip or ("free", c.path)
        if c.opts.get("impl_as"):
            key = ("inherent", c.opts["impl_as"])
        if key not in groups:
            groups[key] = []
            order.append(key)
        groups[key].append((c, verify))
    implspecs = {}
    for (f, (kind, arg, text)) in all_specs:
        if kind == "implspec":
            implspecs.setdefault(arg, []).append(text)
    for key in order:
        if isinstance(key, tuple) and key[0] == "inherent":
            em.add("impl %s {   // methods of a trait impl emitted as inherent methods (R24: trait dispatch dropped)" % key[1])
            for c, verify in groups[key]:
                h = emit_fn(em, idx, c, rewrites, verify=verify)
                fninfo.append(dict(path=c.path, props=c.props, verified=verify and c.mode != "trusted", variant=c.opts.get("variant"),
                                   trusted_by=c.trusted_by, sha=h, vc=os.path.basename(c.src)))
            em.add("}")
            continue
        if isinstance(key, tuple):
            c, verify = groups[key][0]
            h = emit_fn(em, idx, c, rewrites, verify=verify)
            fninfo.append(dict(path=c.path, props=c.props, verified=verify and c.mode != "trusted", variant=c.opts.get("variant"),
                               trusted_by=c.trusted_by, sha=h, vc=os.path.basename(c.src)))
            continue
        log = []
        hdr, it = impl_header(idx, key, log)
        em.add(join(hdr) + " {")
        is_trait = " for " in (" " + norm(hdr) + " ")
        # associated types / consts copied verbatim
        for ch in it.children:
            if ch.kind in ("type", "const"):
                em.add("    " + join(rw_common(list(ch.toks), log)))
        for text in implspecs.get(key, []):
            em.add(text)
        del PENDING_HELPERS[:]
        for c, verify in groups[key]:
            h = emit_fn(em, idx, c, rewrites, verify=verify, in_trait_impl=is_trait)
            fninfo.append(dict(path=c.path, props=c.props, verified=verify and c.mode != "trusted", variant=c.opts.get("variant"),
                               trusted_by=c.trusted_by, sha=h, vc=os.path.basename(c.src)))
        em.add("}")
        if PENDING_HELPERS:
            # R30 helpers live in an inherent impl of the same type
            nh = norm(hdr)
            ty = nh.split(" for ", 1)[1] if " for " in nh else nh.split("impl", 1)[1]
            em.add("impl %s {   // R30: statements outlined from the functions above (tokens unchanged)" % ty.strip())
            for fnid, lines in PENDING_HELPERS:
                for ln, org in lines:
                    em.add(ln, origin=org)
            em.add("}")
            del PENDING_HELPERS[:]
