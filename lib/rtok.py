"""Minimal Rust tokenizer and item-tree parser used by the extractor.

Works on the output of `rustc -Zunpretty=expanded` (no comments except doc
attributes already turned into #[doc = ".."]) and on plain sources.
Tokens are strings; whitespace and comments are dropped.
"""
import re

PUNCT3 = ("<<=", ">>=", "...", "..=")
PUNCT2 = ("::", "->", "=>", "==", "!=", "<=", ">=", "&&", "||", "+=", "-=", "*=", "/=",
          "%=", "^=", "&=", "|=", "<<", ">>", "..")

_ident = re.compile(r"[A-Za-z_][A-Za-z0-9_]*")
_num = re.compile(r"(0x[0-9a-fA-F_]+|0b[01_]+|0o[0-7_]+|[0-9][0-9_]*(\.[0-9][0-9_]*)?([eE][+-]?[0-9_]+)?)([A-Za-z][A-Za-z0-9_]*)?")


class TokError(Exception):
    pass


def tokenize(src):
    toks = []
    i, n = 0, len(src)
    while i < n:
        c = src[i]
        if c.isspace():
            i += 1
            continue
        if src.startswith("//", i):
            j = src.find("\n", i)
            i = n if j < 0 else j
            continue
        if src.startswith("/*", i):
            depth, j = 1, i + 2
            while j < n and depth:
                if src.startswith("/*", j):
                    depth += 1; j += 2
                elif src.startswith("*/", j):
                    depth -= 1; j += 2
                else:
                    j += 1
            i = j
            continue
        # raw strings / byte strings / byte chars
        m = re.match(r"b?r(#*)\"", src[i:i + 40])
        if m:
            hashes = m.group(1)
            end = src.find('"' + hashes, i + len(m.group(0)))
            if end < 0:
                raise TokError("unterminated raw string")
            j = end + 1 + len(hashes)
            toks.append(src[i:j]); i = j
            continue
        if c == '"' or (c == 'b' and i + 1 < n and src[i + 1] == '"'):
            j = i + (2 if c == 'b' else 1)
            while j < n and src[j] != '"':
                j += 2 if src[j] == '\\' else 1
            j += 1
            toks.append(src[i:j]); i = j
            continue
        if c == "'" or (c == 'b' and i + 1 < n and src[i + 1] == "'"):
            k = i + (1 if c == 'b' else 0)
            # char literal or lifetime
            if src[k + 1] == '\\':
                j = k + 2
                while src[j] != "'":
                    j += 1
                j += 1
                toks.append(src[i:j]); i = j
                continue
            if k + 2 < n and src[k + 2] == "'":
                toks.append(src[i:k + 3]); i = k + 3
                continue
            # multi-byte char literal like '你'
            m2 = re.match(r"'[^'\\\n]'", src[k:k + 8])
            if m2:
                j = k + len(m2.group(0))
                toks.append(src[i:j]); i = j
                continue
            m3 = _ident.match(src, k + 1)
            if m3:
                toks.append(src[i:m3.end()]); i = m3.end()
                continue
            raise TokError("bad quote at %d: %r" % (i, src[i:i + 20]))
        m = _ident.match(src, i)
        if m:
            toks.append(m.group(0)); i = m.end()
            continue
        if c.isdigit():
            m = _num.match(src, i)
            t = m.group(0)
            # `1..2` / `x.0.len()`: do not swallow a range or method dot
            if m.group(2) and src.startswith("..", i + len(m.group(1)) - len(m.group(2))):
                t = t[:len(m.group(1)) - len(m.group(2))]
            toks.append(t); i += len(t)
            continue
        for p in PUNCT3:
            if src.startswith(p, i):
                toks.append(p); i += 3
                break
        else:
            for p in PUNCT2:
                if src.startswith(p, i):
                    toks.append(p); i += 2
                    break
            else:
                toks.append(c); i += 1
    return toks


OPEN = {"(": ")", "[": "]", "{": "}"}
CLOSE = {v: k for k, v in OPEN.items()}


def match_close(toks, i):
    """toks[i] is an opener; return index of its matching closer."""
    depth = 0
    o = toks[i]
    cl = OPEN[o]
    j = i
    while j < len(toks):
        t = toks[j]
        if t in OPEN:
            depth += 1
        elif t in CLOSE:
            depth -= 1
            if depth == 0:
                if t != cl:
                    raise TokError("mismatched bracket")
                return j
        j += 1
    raise TokError("unbalanced")


def split_top(toks, sep=","):
    """split a token list on sep at bracket depth 0 (angle brackets are tracked for generics heuristically)."""
    out, cur, depth, ang = [], [], 0, 0
    for k, t in enumerate(toks):
        if t in OPEN:
            depth += 1
        elif t in CLOSE:
            depth -= 1
        if t == sep and depth == 0:
            out.append(cur); cur = []
        else:
            cur.append(t)
    if cur:
        out.append(cur)
    return out


NOSPACE_BEFORE = {",", ";", ")", "]", ".", "?", ":"}
NOSPACE_AFTER = {"(", "[", ".", "&", "!", "#"}


def render(toks, indent=0):
    """Pretty-print tokens: one statement per line, brace indentation."""
    out = []
    line = []
    depth = indent
    paren = 0

    def flush():
        nonlocal line
        if line:
            out.append("    " * depth + join(line))
            line = []

    i = 0
    n = len(toks)
    while i < n:
        t = toks[i]
        if t in ("(", "["):
            paren += 1
        elif t in (")", "]"):
            paren -= 1
        if t == "{" and paren == 0:
            line.append(t)
            flush()
            depth += 1
        elif t == "}" and paren == 0:
            flush()
            depth -= 1
            line.append(t)
            nxt = toks[i + 1] if i + 1 < n else ""
            if nxt not in (";", ",", ")", "else", ".", "?"):
                flush()
        elif t == ";" and paren == 0:
            line.append(t)
            flush()
        else:
            line.append(t)
        i += 1
    flush()
    return "\n".join(out)


def join(toks):
    s = ""
    prev = ""
    for t in toks:
        if not s:
            s = t
        elif t in NOSPACE_BEFORE and not (t == ":" and False):
            s += t
        elif prev in NOSPACE_AFTER and not (prev == "&" and t in ("&",)) and not (prev == "!" and t == "="):
            s += t
        elif t == "(" and (re.match(r"[A-Za-z_0-9]", prev[-1:]) and prev not in KEYWORDS_SP):
            s += t
        elif t == "::" or prev == "::":
            s += t
        else:
            s += " " + t
        prev = t
    return s


KEYWORDS_SP = {"if", "while", "match", "for", "in", "return", "let", "else", "as", "mut", "fn", "where", "impl"}


def norm(toks):
    return " ".join(toks)


# ---------------------------------------------------------------- item tree

class Item:
    __slots__ = ("kind", "name", "attrs", "toks", "children", "header", "body", "path")

    def __init__(self, kind, name, attrs, toks, header=None, body=None):
        self.kind = kind      # mod | impl | fn | struct | enum | trait | const | use | type | other
        self.name = name      # ident, or normalised impl header
        self.attrs = attrs    # list of token lists (each `# [ ... ]`)
        self.toks = toks      # full tokens of the item without attrs
        self.header = header  # tokens before the body brace (fn signature / impl header)
        self.body = body      # tokens inside the braces (fn body / impl / mod contents)
        self.children = []
        self.path = None


QUALS = {"pub", "async", "const", "unsafe", "extern", "default"}


def parse_items(toks):
    items = []
    i, n = 0, len(toks)
    while i < n:
        attrs = []
        while i < n and toks[i] == "#":
            j = i + 1
            if toks[j] == "!":
                j += 1
            e = match_close(toks, j)
            attrs.append(toks[i:e + 1])
            i = e + 1
        if i >= n:
            break
        start = i
        # qualifiers
        j = i
        while j < n and toks[j] in QUALS:
            if toks[j] == "pub" and j + 1 < n and toks[j + 1] == "(":
                j = match_close(toks, j + 1) + 1
            elif toks[j] == "extern" and j + 1 < n and toks[j + 1].startswith('"'):
                j += 2
            elif toks[j] == "const" and j + 1 < n and toks[j + 1] != "fn" and toks[j + 1] not in QUALS:
                break
            else:
                j += 1
        kw = toks[j] if j < n else ""
        if kw == "crate" and j > 0 and toks[j - 1] == "extern":
            k = j
            while toks[k] != ";":
                k += 1
            items.append(Item("other", "extern_crate", attrs, toks[start:k + 1]))
            i = k + 1
            continue
        if kw in ("mod", "fn", "struct", "enum", "trait", "impl", "union"):
            # find body brace or terminating semicolon at depth 0
            k = j + 1
            depth = 0
            while k < n:
                t = toks[k]
                if t in ("(", "["):
                    k = match_close(toks, k) + 1
                    continue
                if t == "{" or t == ";":
                    break
                k += 1
            if k < n and toks[k] == "{":
                e = match_close(toks, k)
                header = toks[start:k]
                body = toks[k + 1:e]
                end = e + 1
                # tuple struct `struct X(..);` handled in ';' branch
            else:
                header = toks[start:k]
                body = None
                end = k + 1
            if kw == "impl":
                name = norm(impl_key(toks[j:k]))
            else:
                name = toks[j + 1]
            it = Item(kw, name, attrs, toks[start:end], header, body)
            if kw in ("mod", "impl", "trait") and body is not None:
                it.children = parse_items(body)
            items.append(it)
            i = end
        elif kw in ("const", "static", "use", "type"):
            k = j
            while k < n and toks[k] != ";":
                if toks[k] in OPEN:
                    k = match_close(toks, k)
                k += 1
            name = toks[j + 1] if kw != "use" else "use"
            if kw in ("const", "static") and name == "mut":
                name = toks[j + 2]
            items.append(Item(kw, name, attrs, toks[start:k + 1]))
            i = k + 1
        elif kw == "macro_rules" or (j + 1 < n and toks[j + 1] == "!"):
            # macro invocation / definition item
            k = j
            while k < n and toks[k] not in OPEN:
                k += 1
            e = match_close(toks, k)
            end = e + 1
            if end < n and toks[end] == ";":
                end += 1
            items.append(Item("other", "macro", attrs, toks[start:end]))
            i = end
        elif kw == ";":
            i = j + 1
        else:
            raise TokError("cannot parse item at token %d: %s" % (j, " ".join(toks[j:j + 12])))
    return items


def impl_key(hdr):
    """`impl <'a, T> Trait<X> for Type<T> where ..` -> tokens `Trait<X> for Type<T>` (generics params dropped)."""
    t = list(hdr[1:])
    if t and t[0] == "<":
        depth = 0
        k = 0
        while k < len(t):
            if t[k] == "<":
                depth += 1
            elif t[k] == ">":
                depth -= 1
                if depth == 0:
                    break
            elif t[k] == ">>":
                depth -= 2
                if depth <= 0:
                    break
            k += 1
        t = t[k + 1:]
    if "where" in t:
        t = t[:t.index("where")]
    # strip leading path qualifiers `::core::cmp::PartialEq` -> keep as is but drop leading ::
    if t and t[0] == "::":
        t = t[1:]
    return t


def index_items(items, prefix=""):
    """Flatten into dict path -> Item. impl blocks are `{Trait for Type}`."""
    out = {}
    for it in items:
        if it.kind == "mod":
            p = prefix + it.name
            it.path = p
            out[p] = it
            out.update(index_items(it.children, p + "::"))
        elif it.kind in ("impl",):
            p = prefix + "{" + it.name + "}"
            it.path = p
            # several impl blocks may share a key (e.g. two `impl Foo`): merge children
            if p in out:
                out[p].children.extend(it.children)
            else:
                out[p] = it
            for c in it.children:
                if c.kind in ("fn", "const", "type"):
                    c.path = p + "::" + c.name
                    out[c.path] = c
        elif it.kind == "trait":
            p = prefix + it.name
            it.path = p
            out[p] = it
            for c in it.children:
                if c.kind == "fn":
                    c.path = p + "::" + c.name
                    out[c.path] = c
        elif it.kind in ("fn", "struct", "enum", "const", "static", "type"):
            p = prefix + it.name
            it.path = p
            out[p] = it
    return out
