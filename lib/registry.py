"""Static registry: Verus units, assumptions text, per-property notes."""

# name -> verify: .vc files proved in this unit; trusted: .vc files imported as contracts only (proved in their own unit)
UNITS = {
    "prim": dict(verify=["common.vc"], trusted=[], spec=["wire.rs"]),
    "topic": dict(verify=["topic.vc"], trusted=["common.vc"], spec=[], spec_import=["wire.rs"]),
    "v5props": dict(verify=["v5types.vc", "v5props.vc"], trusted=["common.vc", "topic.vc"], spec=["props5.rs"], spec_import=["wire.rs", "wire5.rs"]),
    "v5acks": dict(verify=["v5acks.vc"], trusted=["common.vc", "topic.vc", "v5types.vc", "v5props.vc"], spec=[], spec_import=["wire.rs", "wire5.rs", "props5.rs"]),
    "v3": dict(verify=["v3.vc"], trusted=["common.vc", "topic.vc"], spec=[], spec_import=["wire.rs"]),
}

ASSUMPTIONS = {
    "A1": "A1 async lowering: an async fn awaited to completion behaves as its body with .await erased (needed only for the async front ends; Packet::decode/Header::decode/block_decode read from &[u8], which is always ready; the poll decoder is checked as real code by Kani)",
    "A2": "A2 tokio AsyncReadExt::read_exact / impl AsyncRead for &[u8] obey the IoRead contract in prelude/base.rs (exact fill or error of the transport's kind; EOF => UnexpectedEof)",
    "A3": "A3 std::io::Write::write_all / impl Write for Vec<u8> obey the IoWrite contract in prelude/base.rs (all bytes or an error after a prefix; Vec never fails)",
    "A4": "A4 std/dependency functions given assume_specification or wrapper specs in prelude/base.rs (from/to_be_bytes [cross-checked by Kani harness deps.be-bytes], slice::from_ref/from_mut, String::{len,as_bytes,from_utf8_unchecked} over vstd::utf8, simdutf8::from_utf8 == valid_utf8, bytes::Bytes as opaque byte string, io::ErrorKind equality, Result::map_err/map as match)",
    "A5": "A5 iterator adapters: iter().map().sum() and for-in over a slice iterator visit elements left to right (rewrite rules R6/R19), chars().enumerate() yields (index, char) in order (R7)",
    "A6": "A6 usize is 64 bits; heap allocation succeeds",
    "A7": "A7 Verus integer arithmetic is mathematical with overflow obligations; bit operations only through by(bit_vector) lemmas",
    "A8": "A8 unsafe: String::from_utf8_unchecked precondition is a proved obligation; the poll decoder's transmutes are covered functionally by the Kani step contract, not at the memory-model level (Kani -Z uninit-checks ICEs on this crate)",
    "A9": "A9 soundness of Verus/Z3, Kani/CBMC, rustc -Zunpretty=expanded and of the logged textual rewrite rules",
    "A10": "A10 the ? operator converts errors with From::from (one monomorphic axiom per conversion; the From impl bodies are themselves verified)",
}

# which assumptions each back end brings in
VERUS_ASSUMES = ["A1", "A2", "A3", "A4", "A5", "A6", "A7", "A9", "A10"]
KANI_ASSUMES = ["A6", "A9"]
