"""Static registry: Verus units, assumptions text, per-property notes."""

# name -> verify: .vc files proved in this unit; trusted: .vc files imported as contracts only (proved in their own unit)
UNITS = {
    "prim": dict(verify=["common.vc"], trusted=[], spec=["wire.rs"]),
    "topic": dict(verify=["topic.vc"], trusted=["common.vc"], spec=[], spec_import=["wire.rs"]),
    "v5props": dict(verify=["v5types.vc", "v5props.vc"], trusted=["common.vc", "topic.vc"], spec=["props5.rs"], spec_import=["wire.rs", "wire5.rs"], module_ext=False),
    "v5pdec": dict(verify=["v5pdec.vc"], trusted=["common.vc", "topic.vc", "v5types.vc", "v5props.vc"], spec=[], spec_import=["wire.rs", "wire5.rs", "props5.rs"]),
    "v5acks": dict(verify=["v5acks.vc"], trusted=["common.vc", "topic.vc", "v5types.vc", "v5props.vc", "v5pdec.vc"], spec=[], spec_import=["wire.rs", "wire5.rs", "props5.rs"]),
    "v5body": dict(verify=["v5codes.vc", "v5.vc"], trusted=["common.vc", "topic.vc", "v5types.vc", "v5props.vc", "v5pdec.vc"], spec=[], spec_import=["wire.rs", "wire5.rs", "props5.rs"]),
    "v5pkt": dict(verify=["v5pkt.vc"], trusted=["common.vc", "topic.vc", "v5types.vc", "v5props.vc", "v5pdec.vc", "v5acks.vc", "v5codes.vc", "v5.vc"], spec=[], spec_import=["wire.rs", "wire5.rs", "props5.rs"]),
    "lem5": dict(verify=[], trusted=["common.vc", "topic.vc", "v5types.vc", "v5props.vc", "v5pdec.vc", "v5acks.vc", "v5codes.vc", "v5.vc", "v5pkt.vc"], spec=["lemmas5.rs", "lemmas5b.rs"], spec_import=["wire.rs", "wire5.rs", "props5.rs"]),
    "lem3": dict(verify=[], trusted=["common.vc", "topic.vc", "v3.vc"], spec=["lemmas3.rs"], spec_import=["wire.rs"]),
    "v3": dict(verify=["v3.vc"], trusted=["common.vc", "topic.vc"], spec=[], spec_import=["wire.rs"]),
}

ASSUMPTIONS = {
    "A1": "A1 async lowering: an async fn awaited to completion behaves as its body with .await erased (needed only for the async front ends; Packet::decode/Header::decode/block_decode read from &[u8], which is always ready; the poll decoder is checked as real code by Kani)",
    "A2": "A2 tokio AsyncReadExt::read_exact / impl AsyncRead for &[u8] obey the IoRead contract in prelude/base.rs (exact fill or error of the transport's kind; EOF => UnexpectedEof)",
    "A3": "A3 std::io::Write::write_all / impl Write for Vec<u8> obey the IoWrite contract in prelude/base.rs (all bytes or an error after a prefix; Vec never fails)",
    "A4": "A4 std/dependency functions given assume_specification or wrapper specs in prelude/base.rs (from/to_be_bytes [cross-checked by Kani harness deps.be-bytes], slice::from_ref/from_mut, String::{len,as_bytes,from_utf8_unchecked} over vstd::utf8, simdutf8::from_utf8 == valid_utf8, bytes::Bytes as opaque byte string, io::ErrorKind equality, Result::map_err/map as match)",
    "A5": "A5 iterator adapters: iter().map().sum() and for-in over a slice iterator visit elements left to right (rewrite rules R6/R19), chars().enumerate() yields (index, char) in order (R7)",
    "A6": "A6 usize is 64 bits; heap allocation succeeds",
    "A7": "A7 Verus integer arithmetic is mathematical with overflow obligations; bit operations only through by(bit_vector) lemmas",
    "A8": "A8 unsafe: String::from_utf8_unchecked precondition is a proved obligation; the poll decoder's transmutes are covered functionally by the Kani step contract, not at the memory-model level (Kani -Z uninit-checks ICEs on this crate)",
    "A9": "A9 soundness of Verus/Z3, Kani/CBMC, rustc -Zunpretty=expanded and of the logged textual rewrite rules",
    "A10": "A10 the ? operator converts errors with From::from (one monomorphic axiom per conversion; the From impl bodies are themselves verified)",
    "A11": "A11 rewrite rule R30 (used for ConnackProperties::encode only): replacing a statement S of a function returning io::Result by `self.h(writer)?` where `fn h(&self, writer) -> io::Result<()> { S; Ok(()) }` preserves behaviour (S's tokens are unchanged; an early `return Err(e)` inside S becomes h's result and is re-raised by `?` through the reflexive From<io::Error> for io::Error)",
}

# which assumptions each back end brings in
VERUS_ASSUMES = ["A1", "A2", "A3", "A4", "A5", "A6", "A7", "A9", "A10", "A11"]
KANI_ASSUMES = ["A6", "A9"]


# Functions a property depends on that are NOT (yet) under a discharged contract: reported in every evidence file
# so the gap is visible; they are never counted as proved.
V5_REST = "v5: ConnackProperties::encode is proved on a text in which each of its 16 conditional property writes is outlined into a helper function (rewrite rule R30, tokens of the statements unchanged; assumption A11); Packet::get_type is not under contract (the PollHeader::new_with forwarders of src/v3/poll.rs and src/v5/poll.rs are checked against the header table by the complete Kani harnesses poll.v3.new_with / poll.v5.new_with)"
LEMMAS = "spec-level composition lemmas: round trip p_X(enc_X(x)+rest)==Ok(x,|enc|) is proved (unit lem3) for the primitives, the fixed header and every v3 packet type as a whole packet with trailing bytes, and (unit lem5) for each of the 14 v5 property sections (any number of user properties), for the v5 bodies PUBACK/PUBREC/PUBREL/PUBCOMP/CONNACK/SUBACK/UNSUBACK/DISCONNECT/AUTH/PUBLISH/SUBSCRIBE/UNSUBSCRIBE and, as whole packets with fixed header and trailing bytes (p5_packet(enc_packet5(P)+rest)==Ok(P,|enc|)), for these twelve types plus PINGREQ/PINGRESP; v5 CONNECT has no whole-body lemma (its property sections and will properties have); framing of a stream of back-to-back packets (decode n packets advancing by the reported length == the encoded sequence, lengths add up, trailing bytes untouched, empty input => Incomplete) is proved by induction over the packet list for every v3 packet type (lemma_v3_stream_framing) and for the fourteen covered v5 types, all but CONNECT (lemma_v5_stream_framing); prefix=>Incomplete for the primitives and every v3 packet type; for v5 prefixes and |enc| <= consumed the property is decided per function (encoder == enc_X, decoder == p_X, decoded value valid() for the encoder) and the composition is by inspection of the two specs"
GAPS = {
    "C01": [V5_REST, LEMMAS, "poll body phase is bounded (body length <= 4 quick, <= 8 thorough)"],
    "C02": [V5_REST, "F5-style oversize property sections: encode_len's precondition valid() excludes sections >= 2^28 bytes (the crate panics there instead of returning an error; not exercised by any obligation)"],
    "C03": ["poll body phase is bounded (body length <= 4 quick, <= 8 thorough); memory-level initialisation of the MaybeUninit buffer is not machine-checked (A8)"],
    "C04": ["composition poll-step o block_decode o new_with is on paper (DESIGN 2.3)"],
    "C05": ["two reads inside one poll == two polls (merge) is machine-checked for the header phase only, and only in the thorough tier (complete Kani harness poll.header-merge, about 9 minutes); the body-phase merge harness does not finish; otherwise schedule independence rests on the single-step contracts plus the structural argument of DESIGN 2.3", "body phase bounded (body length <= 4 quick, <= 8 thorough)"],
    "C06": ["agreement is by the dispatchers refining the same spec (p3_packet/p3_body, p5_packet/p5_body); the final step from poll-step contract (Kani, mock header) to the real Header impls is on paper"],
    "C07": [LEMMAS],
    "C08": [LEMMAS],
    "C09": [V5_REST, "partial writes / Pending of an async sink live in tokio's WriteAll (A1, A3)"],
    "C10": [V5_REST],
    "C11": [V5_REST, LEMMAS],
    "C12": [],
    "C13": ["Protocol::new is a bounded Kani table (names <= 7 bytes), assumed by the Verus callers"],
    "C14": ["composite encoders: only error-comes-from-the-sink is proved per impl; 'only a prefix of enc()' is proved for the leaf writers and Packet::encode_async, and follows for composites by sequential composition (not machine-checked)"],
    "C15": [],
    "C16": [],
    "C17": ["Eq/Ord/Hash/Display of TopicFilter are not under contract (they only touch `inner`); str range indexing is a trusted wrapper (A4)"],
    "C18": [],
    "C19": [],
    "C20": [],
}
