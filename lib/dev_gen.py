import sys, os, json, subprocess, time
sys.path.insert(0, '/verif/lib')
import rtok, gen
exp = sys.argv[1]
out = sys.argv[2]
verify = sys.argv[3].split(',')
trusted = [x for x in sys.argv[4].split(',') if x]
specs = [x for x in sys.argv[5].split(',') if x]
idx = rtok.index_items(rtok.parse_items(rtok.tokenize(open(exp).read())))
text, origin, info = gen.build_unit(idx, verify, trusted, specs, '/verif')
open(out, 'w').write(text)
json.dump({str(k): v for k, v in origin.items()}, open(out + '.origin.json', 'w'))
print('generated', out, len(text.split('\n')), 'lines')
