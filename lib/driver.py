"""vcheck driver: scratch copy -> (expansion -> Verus units) || (Kani overlay -> harnesses) -> evidence."""
import concurrent.futures as cf
import hashlib
import json
import os
import re
import shutil
import subprocess
import sys
import tempfile
import time
import tomllib

import gen
import registry
import rtok

REPO = os.environ.get("VERIF_REPO", "/repo")
NCPU = os.cpu_count() or 8


class Undecided(Exception):
    pass


def log(*a):
    print(*a, file=sys.stderr, flush=True)


def run(cmd, cwd=None, env=None, timeout=None):
    """run a tool in its own process group; output goes to temp files (orphaned solver children may keep a pipe open
    after the tool itself exits), and the whole group is killed afterwards"""
    import signal
    e = dict(os.environ)
    e.update(env or {})
    e.setdefault("CARGO_NET_OFFLINE", "true")
    t0 = time.time()
    fo = tempfile.TemporaryFile()
    fe = tempfile.TemporaryFile()
    p = subprocess.Popen(cmd, cwd=cwd, env=e, stdout=fo, stderr=fe, start_new_session=True)
    rc = None
    try:
        rc = p.wait(timeout=timeout)
    except subprocess.TimeoutExpired:
        rc = 124
    finally:
        try:
            os.killpg(p.pid, signal.SIGKILL)
        except Exception:
            pass
        try:
            p.wait(timeout=10)
        except Exception:
            pass
    fo.seek(0)
    fe.seek(0)
    out = fo.read().decode("utf-8", "replace")
    err = fe.read().decode("utf-8", "replace")
    if rc == 124:
        err += "\nTIMEOUT"
    return rc, out, err, time.time() - t0


# ------------------------------------------------------------------ scratch

class Scratch:
    def __init__(self):
        base = os.environ.get("VERIF_SCRATCH") or "/var/tmp"
        os.makedirs(base, exist_ok=True)
        self.dir = tempfile.mkdtemp(prefix="verif.", dir=base)

    def copy_repo(self, name):
        dst = os.path.join(self.dir, name)
        rc, out, err, _ = run(["rsync", "-a", "--exclude", "target", "--exclude", "fuzz", "--exclude", ".git", REPO + "/", dst + "/"])
        if rc != 0:
            raise Undecided("cannot copy working tree: " + err)
        return dst

    def cleanup(self):
        if os.environ.get("VERIF_KEEP"):
            log("scratch kept at", self.dir)
            return
        shutil.rmtree(self.dir, ignore_errors=True)


# ------------------------------------------------------------------ registry helpers

def unit_contracts(root, unit):
    u = registry.UNITS[unit]
    fns = []
    for f in u["verify"]:
        cs, specs = gen.parse_vc(os.path.join(root, "contracts", f))
        fns += cs
    return fns


LEMMA_RE = re.compile(r"//@lemma\s+props=([A-Z0-9,]+)\s*\n\s*pub\s+(?:broadcast\s+)?proof\s+fn\s+([A-Za-z0-9_]+)")


def unit_lemmas(root, unit):
    """[(name, props)] for `//@lemma props=..` annotated proof fns in the unit's spec files and @spec blocks"""
    u = registry.UNITS[unit]
    out = []
    texts = [open(os.path.join(root, "spec", f)).read() for f in u["spec"]]
    for f in u["verify"]:
        texts.append(open(os.path.join(root, "contracts", f)).read())
    for t in texts:
        for m in LEMMA_RE.finditer(t):
            out.append((m.group(2), m.group(1).split(",")))
    return out


def units_for(root, prop):
    out = []
    for name in registry.UNITS:
        if any(prop in c.props for c in unit_contracts(root, name)) or any(prop in p for _, p in unit_lemmas(root, name)):
            out.append(name)
    return out


HARNESS_RE = re.compile(r"//@\s*(id=[^\n]*)\n((?:\s*#\[[^\n]*\]\s*\n)*)\s*(?:(?:pub\s+)?fn\s+|[a-z_]+!\()([A-Za-z0-9_]+)")


def kani_harnesses(root):
    hs = []
    kd = os.path.join(root, "kani")
    files = [os.path.join(kd, "verif_kani.rs")] + sorted(
        os.path.join(kd, "verif_kani", f) for f in os.listdir(os.path.join(kd, "verif_kani")) if f.endswith(".rs"))
    for f in files:
        src = open(f).read()
        for m in HARNESS_RE.finditer(src):
            kv = dict(x.split("=", 1) for x in m.group(1).split())
            mod = "verif_kani" if f.endswith("verif_kani.rs") else "verif_kani::" + os.path.basename(f)[:-3]
            hs.append(dict(id=kv["id"], props=kv["props"].split(","), kind=kv.get("kind", "complete"),
                           tier=kv.get("tier", "quick"), fn=m.group(3), full=mod + "::" + m.group(3),
                           contract=kv.get("contract") == "1", xcheck=kv.get("xcheck") == "1", file=os.path.relpath(f, root)))
    return hs


# ------------------------------------------------------------------ Verus side

def expand(scratch):
    repo = scratch.copy_repo("expand")
    rc, out, err, dt = run(["cargo", "+nightly", "rustc", "--lib", "--offline", "--", "-Zunpretty=expanded"], cwd=repo,
                           env={"CARGO_TARGET_DIR": os.path.join(scratch.dir, "target-expand")}, timeout=600)
    if rc != 0:
        raise Undecided("rustc expansion of the working tree failed:\n" + err[-3000:])
    try:
        idx = rtok.index_items(rtok.parse_items(rtok.tokenize(out)))
    except rtok.TokError as e:
        raise Undecided("cannot parse expanded source: %s" % e)
    return idx, dt


VIOLATION_MSGS = ("postcondition not satisfied", "precondition not satisfied", "assertion failed", "invariant not satisfied",
                  "possible arithmetic underflow/overflow", "possible division by zero", "decreases not satisfied",
                  "loop invariant", "possible bit shift", "recommendation not met", "could not prove termination",
                  "unreachable", "index out of bounds", "might not be allowed", "failed this")


def run_vacuity(root, scratch, idx, unit):
    """thorough tier: every function with its own `requires` gets a twin with `ensures false`; the twin must FAIL"""
    u = registry.UNITS[unit]
    try:
        text, origin, info = gen.build_unit(idx, u["verify"], u["trusted"], u["spec"], root, spec_import=u.get("spec_import", ()),
                                            module_ext=u.get("module_ext", True), vacuity=True)
    except gen.GenError as e:
        return dict(unit=unit, checked=[], vacuous=[], note="generator: %s" % e)
    fns = list(info.get("vacuity_fns", []))
    if not fns:
        return dict(unit=unit, checked=[], vacuous=[])
    path = os.path.join(scratch.dir, "vac_%s.rs" % unit)
    open(path, "w").write(text)
    rc, out, err, dt = run(["verus", path, "--num-threads", str(max(4, NCPU // 2)), "--error-format=json", "--multiple-errors", "1"],
                           cwd=scratch.dir, timeout=1500)
    failed = set()
    for ln in err.split("\n"):
        ln = ln.strip()
        if not ln.startswith("{"):
            continue
        try:
            d = json.loads(ln)
        except Exception:
            continue
        if d.get("level") != "error":
            continue
        for sp in d.get("spans", []):
            if os.path.basename(sp.get("file_name", "")) != os.path.basename(path):
                continue
            o = origin.get(sp["line_start"])
            if o and o.endswith(":vacuity-twin"):
                failed.add(o.rsplit(":", 1)[0])
    return dict(unit=unit, checked=fns, vacuous=[f for f in fns if f not in failed], wall_s=round(dt, 1))


def run_unit(root, scratch, idx, unit, rlimit=None):
    u = registry.UNITS[unit]
    res = dict(unit=unit, failures=[], undecided=[], verified=0, errors=0, fns=[], time_s=0.0, smt_s=0.0, rewrites=[],
               trusted_base=[], lemmas=[], cmd="")
    try:
        text, origin, info = gen.build_unit(idx, u["verify"], u["trusted"], u["spec"], root, spec_import=u.get("spec_import", ()), module_ext=u.get("module_ext", True))
    except gen.GenError as e:
        res["undecided"].append("generator: %s" % e)
        return res
    path = os.path.join(scratch.dir, "u_%s.rs" % unit)
    open(path, "w").write(text)
    res["fns"] = info["fns"]
    res["rewrites"] = info["rewrites"]
    res["trusted_base"] = scan_trusted(text)
    res["lemmas"] = unit_lemmas(root, unit)
    cmd = ["verus", path, "--num-threads", str(max(4, NCPU // 2)), "--output-json", "--time", "--error-format=json",
           "--multiple-errors", "4"]
    if rlimit:
        cmd += ["--rlimit", str(rlimit)]
    res["cmd"] = "verus u_%s.rs --output-json --time --error-format=json --multiple-errors 4" % unit
    rc, out, err, dt = run(cmd, cwd=scratch.dir, timeout=1500)
    res["time_s"] = round(dt, 2)
    if rc == 124:
        res["undecided"].append("verus timeout")
        return res
    try:
        js = json.loads(out)
    except Exception:
        js = None
    diags = []
    for ln in err.split("\n"):
        ln = ln.strip()
        if ln.startswith("{"):
            try:
                diags.append(json.loads(ln))
            except Exception:
                pass
    if js is None:
        msgs = [d.get("message", "") for d in diags if d.get("level") == "error"]
        res["undecided"].append("verus produced no result (compile error / unsupported construct): " + "; ".join(msgs)[:1500] + err[-500:])
        return res
    vr = js.get("verification-results", {})
    res["verified"] = vr.get("verified", 0)
    res["errors"] = vr.get("errors", 0)
    try:
        res["smt_s"] = round(js["times-ms"]["smt"]["total"] / 1000.0, 2)
        res["fn_times"] = {}
        for m in js["times-ms"]["smt"]["smt-run-module-times"]:
            for fb in m.get("function-breakdown", []):
                res["fn_times"][fb["function"]] = dict(ms=fb["time"], ok=fb["success"])
    except Exception:
        pass
    if vr.get("encountered-vir-error"):
        msgs = [d.get("message", "") for d in diags if d.get("level") == "error"]
        res["undecided"].append("verus rejected the unit (unsupported construct / type error): " + "; ".join(msgs)[:2000])
        return res
    # fn id -> contract entry
    lines = text.split("\n")
    for d in diags:
        if d.get("level") != "error":
            continue
        msg = d.get("message", "")
        if msg.startswith("aborting due to"):
            continue
        spans = [sp for sp in d.get("spans", []) if os.path.basename(sp.get("file_name", "")) == os.path.basename(path)]
        fn = None
        clause = None
        hint_primary = False
        where = []
        for s in spans:
            o = origin.get(s["line_start"]) or origin.get(str(s["line_start"]))
            lab = s.get("label") or ""
            where.append("%d:%s" % (s["line_start"], lab))
            if o:
                f = o.split(":", 1)[0] if not o.startswith("v") or True else o
                f = o.rsplit(":", 1)[0]
                kind = o.rsplit(":", 1)[1]
                if kind == "hint" and s.get("is_primary"):
                    hint_primary = True
                if kind not in ("body", "signature", "hint") and ("failed" in lab or s.get("is_primary")):
                    clause = o
                if fn is None or kind == "body":
                    fn = f
        text_excerpt = "\n".join("%5d| %s" % (s["line_start"], lines[s["line_start"] - 1]) for s in spans if 0 < s["line_start"] <= len(lines))
        if not fn:
            # proof fn / lemma in spec text: locate enclosing `proof fn`
            name = None
            for s in spans:
                k = s["line_start"] - 1
                while k >= 0:
                    m = re.search(r"proof\s+fn\s+([A-Za-z0-9_]+)", lines[k])
                    if m:
                        name = m.group(1)
                        break
                    if re.match(r"^\s*(pub\s+)?(open\s+|closed\s+)?(spec\s+)?fn\s", lines[k]):
                        break
                    k -= 1
                if name:
                    break
            fn = "lemma:" + name if name else None
        entry = dict(unit=unit, fn=fn, clause=clause, message=msg, where=where, excerpt=text_excerpt)
        low = msg.lower()
        if "rlimit" in low or "resource limit" in low or "timed out" in low:
            res["undecided"].append("rlimit exceeded in %s (%s)" % (fn, msg))
        elif hint_primary and clause is None:
            # a proof hint (assert / lemma precondition inside a spliced `proof { }` block) no longer holds: the proof is
            # broken, which says nothing about the contract clauses themselves (those are reported separately if they fail)
            res["hint_failures"] = res.get("hint_failures", []) + ["proof hint failed in %s (%s) @ %s" % (fn, msg, where)]
        elif any(k in low for k in VIOLATION_MSGS):
            res["failures"].append(entry)
        else:
            res["undecided"].append("verus error not classified as a failed obligation: %s @ %s" % (msg, where))
    for hf in res.get("hint_failures", []):
        fnname = hf.split(" in ", 1)[1].split(" (", 1)[0]
        if not any(f["fn"] == fnname for f in res["failures"]):
            res["undecided"].append(hf)
    if res["errors"] and not res["failures"] and not res["undecided"]:
        res["undecided"].append("verus reported %d errors but none could be parsed" % res["errors"])
    return res


def scan_trusted(text):
    out = []
    lines = text.split("\n")
    for i, ln in enumerate(lines):
        if "assume_specification" in ln and not ln.strip().startswith("//"):
            m = re.search(r"assume_specification\s*(?:<[^>]*>)?\s*\[([^\]]+)\]", ln)
            out.append("assume_specification " + (m.group(1).strip() if m else ln.strip()[:80]))
        elif "#[verifier::external_body]" in ln:
            j = i + 1
            while j < len(lines) and not re.search(r"\b(fn|struct)\s+([A-Za-z0-9_]+)", lines[j]):
                j += 1
            if j < len(lines):
                m = re.search(r"\b(fn|struct)\s+([A-Za-z0-9_]+)", lines[j])
                out.append("external_body %s %s" % (m.group(1), m.group(2)))
        elif re.search(r"\baxiom\s+fn\s+([A-Za-z0-9_]+)", ln):
            out.append("axiom " + re.search(r"\baxiom\s+fn\s+([A-Za-z0-9_]+)", ln).group(1))
        elif re.search(r"\b(assume|admit)\s*\(", ln) and not ln.strip().startswith("//"):
            out.append("assume/admit at generated line %d: %s" % (i + 1, ln.strip()[:80]))
        elif "external_type_specification" in ln:
            j = i + 1
            while j < len(lines) and "struct" not in lines[j]:
                j += 1
            if j < len(lines):
                out.append("external_type " + lines[j].strip()[:60])
    return sorted(set(out))


# ------------------------------------------------------------------ Kani side

def make_overlay(root, scratch):
    repo = scratch.copy_repo("kani")
    before = {}
    kd = os.path.join(root, "kani")
    shutil.copy(os.path.join(kd, "verif_kani.rs"), os.path.join(repo, "src", "verif_kani.rs"))
    shutil.copytree(os.path.join(kd, "verif_kani"), os.path.join(repo, "src", "verif_kani"))
    with open(os.path.join(repo, "src", "lib.rs"), "a") as f:
        f.write("\n#[cfg(kani)]\nmod verif_kani;\n")
    cfg = tomllib.load(open(os.path.join(kd, "contracts.toml"), "rb"))
    inserted = []
    for c in cfg.get("contract", []):
        p = os.path.join(repo, c["file"])
        src = open(p).read().split("\n")
        want = re.sub(r"\s+", "", c["impl"])
        i = 0
        at = None
        while i < len(src):
            if re.sub(r"\s+", "", src[i]).startswith(want):
                depth = 0
                j = i
                started = False
                while j < len(src):
                    if re.match(r"\s*(pub(\([a-z]+\))?\s+)?(async\s+)?fn\s+%s\b" % re.escape(c["fn"]), src[j]) and started:
                        at = j
                        break
                    depth += src[j].count("{") - src[j].count("}")
                    if "{" in src[j]:
                        started = True
                    if started and depth <= 0:
                        break
                    j += 1
                if at is not None:
                    break
            i += 1
        if at is None:
            raise Undecided("lost anchor: %s / fn %s in %s (Kani contract)" % (c["impl"], c["fn"], c["file"]))
        # skip back over doc comments / attributes directly above
        k = at
        while k > 0 and (src[k - 1].strip().startswith("///") or src[k - 1].strip().startswith("#[")):
            k -= 1
        indent = re.match(r"\s*", src[at]).group(0)
        src[at:at] = [indent + a for a in c["attrs"]]
        inserted.append((c["file"], c["impl"], c["fn"], c["attrs"]))
        open(p, "w").write("\n".join(src))
    return repo, inserted


def parse_kani_output(out):
    """-> {harness full name: dict(status, checks, failed, failed_checks[], time_s)}"""
    res = {}
    cur = {}
    blocks = {}
    thread_h = {}
    order = []
    curh = None
    for ln in out.split("\n"):
        m = re.match(r"^(?:Thread (\d+): )?Checking harness ([A-Za-z0-9_:]+)\.\.\.", ln)
        if m:
            t = m.group(1) or "0"
            thread_h[t] = m.group(2)
            curh = m.group(2)
            blocks.setdefault(curh, [])
            continue
        m = re.match(r"^Thread (\d+):\s*(.*)$", ln)
        if m:
            curh = thread_h.get(m.group(1), curh)
            if curh:
                blocks[curh].append(m.group(2))
            continue
        if curh:
            blocks[curh].append(ln)
    for h, lines in blocks.items():
        txt = "\n".join(lines)
        r = dict(status="UNKNOWN", checks=0, failed=0, failed_checks=[], time_s=0.0, raw=txt[-3000:])
        m = re.search(r"\*\* (\d+) of (\d+) failed", txt)
        if m:
            r["failed"] = int(m.group(1))
            r["checks"] = int(m.group(2))
        m = re.search(r"VERIFICATION:- (SUCCESSFUL|FAILED)", txt)
        if m:
            r["status"] = m.group(1)
        m = re.search(r"Verification Time: ([0-9.]+)s", txt)
        if m:
            r["time_s"] = float(m.group(1))
        for fm in re.finditer(r"Failed Checks: (.*)\n\s*File: \"([^\"]*)\", line (\d+), in (\S+)", txt):
            r["failed_checks"].append(dict(desc=fm.group(1).strip(), file=fm.group(2), line=int(fm.group(3)), func=fm.group(4)))
        if "CBMC timed out" in txt or "CBMC failed" in txt and not r["failed_checks"]:
            r["status"] = "UNKNOWN"
            r["note"] = "CBMC timed out" if "timed out" in txt else "CBMC failed without a failed check (out of memory / crash)"
        res[h] = r
    return res


def run_kani(root, scratch, harnesses, tier):
    out = dict(harnesses={}, undecided=[], cmd="", time_s=0.0, overlay=[], build_err="")
    if not harnesses:
        return out
    try:
        repo, inserted = make_overlay(root, scratch)
    except Undecided as e:
        out["undecided"].append(str(e))
        return out
    out["overlay"] = ["%s: %s::%s += %s" % (f, i, fn, "; ".join(a)) for f, i, fn, a in inserted]
    hto = int(os.environ.get("VERIF_HARNESS_TIMEOUT", "300" if tier == "quick" else "2400"))
    cmd = ["cargo", "kani", "-Z", "function-contracts", "-Z", "stubbing", "-Z", "unstable-options", "--harness-timeout", "%ds" % hto,
           "-j", str(min(NCPU, 12)), "--output-format=terse"]
    for h in harnesses:
        cmd += ["--harness", h["full"]]
    cmd += ["--exact"]
    out["cmd"] = "CARGO_NET_OFFLINE=true cargo kani -Z function-contracts -Z stubbing -Z unstable-options --harness-timeout %ds -j %d --output-format=terse %s" % (
        hto, min(NCPU, 12), " ".join("--harness " + h["full"] for h in harnesses) + " --exact")
    to = 1500 if tier == "quick" else 6000
    rc, so, se, dt = run(cmd, cwd=repo, env={"CARGO_TARGET_DIR": os.path.join(scratch.dir, "target-kani")}, timeout=to)
    out["time_s"] = round(dt, 2)
    allout = so + "\n" + se
    if "error: could not compile" in allout or "error[E" in allout:
        errs = "\n".join(l for l in allout.split("\n") if l.startswith("error"))
        out["undecided"].append("kani overlay does not compile (harness out of date with the code?):\n" + errs[:2000])
        out["build_err"] = allout[-4000:]
        return out
    parsed = parse_kani_output(allout)
    for h in harnesses:
        r = parsed.get(h["full"])
        if r is None:
            out["undecided"].append("no Kani result for harness %s%s" % (h["full"], " (timeout)" if rc == 124 else ""))
            continue
        if r["status"] == "UNKNOWN" and not h.get("xcheck"):
            out["undecided"].append("Kani did not finish harness %s%s" % (h["full"], " (timeout)" if rc == 124 else ""))
        r["meta"] = h
        out["harnesses"][h["full"]] = r
    out["repo"] = repo
    return out


def kani_playback(scratch, repo, h):
    """rerun one failed harness with concrete playback; returns printed counterexample text"""
    cmd = ["cargo", "kani", "-Z", "function-contracts", "-Z", "stubbing", "-Z", "concrete-playback", "--concrete-playback=print",
           "--output-format=terse", "--harness", h["full"]]
    rc, so, se, dt = run(cmd, cwd=repo, env={"CARGO_TARGET_DIR": os.path.join(scratch.dir, "target-kani")}, timeout=600)
    txt = so + "\n" + se
    m = re.search(r"Concrete playback unit test for `[^`]*`:\s*```\s*(.*?)```", txt, re.S)
    test = m.group(1) if m else None
    return test, txt[-4000:]


def kani_native_replay(scratch, repo, h, test_src):
    """append the generated playback test next to the harness and execute it natively (real code, concrete values)"""
    if not test_src:
        return None
    path = os.path.join(repo, "src", h["file"].split("kani/", 1)[1])
    with open(path, "a") as f:
        f.write("\n" + test_src + "\n")
    m = re.search(r"fn (kani_concrete_playback_[A-Za-z0-9_]+)", test_src)
    if not m:
        return None
    cmd = ["cargo", "kani", "playback", "-Z", "concrete-playback", "--", m.group(1)]
    rc, so, se, dt = run(cmd, cwd=repo, env={"CARGO_TARGET_DIR": os.path.join(scratch.dir, "target-kani-pb")}, timeout=900)
    txt = so + "\n" + se
    failed = ("panicked at" in txt) or ("test result: FAILED" in txt)
    keep = [l for l in txt.split("\n") if "panicked" in l or "test result" in l or l.startswith("test ") or "assertion" in l]
    return dict(reproduced=failed, output="\n".join(keep)[-2000:], rc=rc)


# ------------------------------------------------------------------ known findings

def load_known(root):
    p = os.path.join(root, "KNOWN_FINDINGS.txt")
    out = []
    if os.path.exists(p):
        for ln in open(p):
            ln = ln.strip()
            m = re.match(r"^open:\s+property=(C\d+)\s+obligation=(\S+)\s+::\s+(.*)$", ln)
            if m:
                out.append(dict(property=m.group(1), obligation=m.group(2), what=m.group(3)))
    return out


def known_match(known, prop, oid):
    for k in known:
        if k["property"] == prop and re.search(k["obligation"], oid):
            return k
    return None


# ------------------------------------------------------------------ main

def check_prefix_prop(desc, props, prop):
    """a failed CBMC check counts for every property its harness is registered for: the `Cxx:` prefix of the message
    names the property whose wording the assertion was taken from, not the only one that depends on it"""
    if prop.startswith("KANI:"):
        return True
    return prop in props


def main(root, argv):
    if not argv:
        print(__doc__)
        return 2
    prop = argv[0]
    tier = argv[1] if len(argv) > 1 else os.environ.get("VERIF_TIER", "quick")
    seed = int(os.environ.get("VERIF_SEED", "0") or 0)
    t0 = time.time()
    evdir = os.environ.get("VERIF_EVIDENCE_DIR") or os.path.join(root, "evidence")
    os.makedirs(evdir, exist_ok=True)
    ev_path = os.path.join(evdir, "%s.json" % prop) if re.match(r"^C\d+$", prop) else os.path.join("/var/tmp", "verif-dev-evidence.json")
    os.makedirs(os.path.join(root, "replay"), exist_ok=True)
    scratch = Scratch()
    rcode = 2
    try:
        rcode = decide(root, prop, tier, seed, scratch, t0, ev_path)
    except Undecided as e:
        print("UNDECIDED property=%s: %s" % (prop, e))
        write_evidence(ev_path, prop, tier, seed, t0, dict(undecided=[str(e)]), [], [], [], [], {})
        rcode = 2
    finally:
        scratch.cleanup()
    return rcode


def decide(root, prop, tier, seed, scratch, t0, ev_path):
    dev = None
    if prop.startswith("KANI:"):
        dev = prop
        units = []
        hs = [dict(h, props=h["props"] + [prop]) for h in kani_harnesses(root)
              if re.search(prop[5:], h["fn"]) and (h["tier"] != "manual" or tier == "manual") and (tier in ("thorough", "manual") or h["tier"] == "quick")]
    elif prop.startswith("UNIT:"):
        dev = prop
        units = [prop[5:]]
        hs = []
    elif prop.startswith("MUT:"):
        # MUT:<unit,unit,..>|<kani fn regex>   (tools/mutate.py: every failure in the listed units / harnesses counts)
        dev = prop
        us, _, rx = prop[4:].partition("|")
        units = [u for u in us.split(",") if u]
        hs = [dict(h, props=h["props"] + [prop]) for h in kani_harnesses(root)
              if rx and re.search(rx, h["fn"]) and h["tier"] == "quick"]
    else:
        units = units_for(root, prop)
        hs = [h for h in kani_harnesses(root) if prop in h["props"] and h["tier"] != "manual" and (tier == "thorough" or h["tier"] == "quick")]
    if not units and not hs:
        raise Undecided("no unit or harness is registered for %s" % prop)
    log("[%s/%s] verus units: %s; kani harnesses: %d" % (prop, tier, units, len(hs)))
    known = load_known(root)
    with cf.ThreadPoolExecutor(max_workers=8) as ex:
        kfut = ex.submit(run_kani, root, scratch, hs, tier)
        ures = []
        exp_dt = 0.0
        if units:
            idx, exp_dt = expand(scratch)
            futs = [ex.submit(run_unit, root, scratch, idx, u) for u in units]
            vfuts = [ex.submit(run_vacuity, root, scratch, idx, u) for u in units] if tier == "thorough" else []
            ures = [f.result() for f in futs]
            vac = [f.result() for f in vfuts]
        kres = kfut.result()

    undecided = []
    if not units:
        vac = []
    for vr in vac:
        for f in vr.get("vacuous", []):
            undecided.append("[unit %s] vacuity guard: the precondition of %s admits no state (its `ensures false` twin verified)" % (vr["unit"], f))
    violations = []   # dict(oid, backend, detail)
    other = []
    obligations = 0
    discharged = 0
    samples = []
    fn_list = []
    trusted = set()
    rewrites = []
    smt_s = 0.0
    for ur in ures:
        undecided += ["[unit %s] %s" % (ur["unit"], u) for u in ur["undecided"]]
        trusted.update("verus: " + t for t in ur["trusted_base"])
        smt_s += ur.get("smt_s", 0.0)
        failed_fns = {}
        for f in ur["failures"]:
            failed_fns.setdefault(f["fn"], []).append(f)
        contracts = {gen.short_id(c.path) + (("__" + c.opts["variant"]) if c.opts.get("variant") else ""): c for c in unit_contracts(root, ur["unit"])}
        for fi in ur["fns"]:
            sid = gen.short_id(fi["path"]) + (("__" + fi["variant"]) if fi.get("variant") else "")
            c = contracts.get(sid)
            if c is None or (prop not in fi["props"] and not dev):
                continue
            n = 1 + len(c.requires) + len(c.ensures) + sum(len(l["invariant"]) + len(l["ensures"]) + (1 if l["decreases"] else 0) for l in c.loops.values()) + len(gen.hint_asserts(c))
            entry = dict(function=fi["path"], unit=ur["unit"], src_sha256_16=fi["sha"], backend="verus",
                         status="proved" if fi["verified"] else "contract assumed here (%s)" % (fi["trusted_by"] or "proved in its own unit"))
            if fi.get("variant"):
                entry["status"] = "known-finding twin (weaker precondition; not counted)"
                fn_list.append(entry)
                continue
            if fi["verified"] and not ur["undecided"]:
                obligations += n
                nf = len(failed_fns.get(sid, []))
                discharged += max(0, n - nf) if nf else n
                if nf:
                    entry["status"] = "FAILED"
                if len(samples) < 12:
                    for lab, txt in (c.ensures[:1] or c.requires[:1]):
                        samples.append("%s:%s:ensures#%s  %s" % (prop, sid, lab, " ".join(txt.split())[:160]))
            fn_list.append(entry)
        lem = dict(ur["lemmas"])
        for name, props in ur["lemmas"]:
            if prop in props and not ur["undecided"]:
                obligations += 1
                if ("lemma:" + name) in failed_fns:
                    pass
                else:
                    discharged += 1
                fn_list.append(dict(function="lemma " + name, unit=ur["unit"], backend="verus",
                                    status="FAILED" if ("lemma:" + name) in failed_fns else "proved"))
        for f in ur["failures"]:
            fnid = f["fn"] or "?"
            props = []
            if fnid.startswith("lemma:"):
                props = lem.get(fnid[6:], [])
            elif fnid in contracts:
                props = contracts[fnid].props
            oid = f["clause"] or ("%s:%s" % (fnid, f["message"].replace(" ", "-")))
            rec = dict(oid=oid, backend="verus", unit=ur["unit"], detail=f, props=props)
            if fnid == "?":
                undecided.append("[unit %s] failed obligation could not be attributed to a function: %s" % (ur["unit"], f["message"]))
            elif prop in props or dev:
                violations.append(rec)
            else:
                other.append(rec)
        for p, lg in ur["rewrites"]:
            for rule, cnt in lg:
                rewrites.append("%s: %s x%d" % (p, rule, cnt))
    undecided += ["[kani] " + u for u in kres["undecided"]]
    bounded = []
    kani_time = 0.0
    for full, r in kres["harnesses"].items():
        h = r["meta"]
        trusted.update(["kani: CBMC bit-precise model of rustc MIR; stubs listed per harness"])
        kani_time += r["time_s"]
        if r["status"] == "UNKNOWN":
            if h.get("xcheck"):
                # a bounded cross-check of a function that is proved by Verus: not finishing in time decides nothing either way
                bounded.append(dict(harness=h["id"], bound=h["kind"], checks=0, failed=0,
                                    status="NOT FINISHED within the harness timeout (cross-check only; the property is decided by the Verus proof)"))
            continue
        is_bounded = h["kind"].startswith("bounded")
        if is_bounded:
            bounded.append(dict(harness=h["id"], bound=h["kind"], checks=r["checks"], failed=r["failed"], status=r["status"]))
        else:
            obligations += r["checks"]
            discharged += r["checks"] - r["failed"]
        fn_list.append(dict(function="harness " + h["id"], unit="kani:" + h["fn"], backend="kani/cbmc",
                            status=("bounded " if is_bounded else "") + ("proved" if r["status"] == "SUCCESSFUL" else "FAILED"),
                            checks=r["checks"], cbmc_s=r["time_s"]))
        if len(samples) < 16:
            samples.append("%s:kani:%s (%d CBMC checks, %s)" % (prop, h["id"], r["checks"], h["kind"]))
        if r["status"] == "FAILED":
            mine = [fc for fc in r["failed_checks"] if check_prefix_prop(fc["desc"], h["props"], prop)]
            if not r["failed_checks"]:
                mine = [dict(desc="harness failed (no failed-check line parsed)", file="", line=0, func="")]
            for fc in mine:
                oid = "kani:%s:%s" % (h["id"], re.sub(r"[^A-Za-z0-9_.:#-]+", "-", fc["desc"].strip('"'))[:120])
                violations.append(dict(oid=oid, backend="kani", harness=h, detail=fc, raw=r["raw"], props=h["props"]))

    if dev:
        for ur in ures:
            ft = sorted(ur.get("fn_times", {}).items(), key=lambda kv: -kv[1]["ms"])[:10]
            log("slowest:", [(k.split("::", 2)[-1], v["ms"], v["ok"]) for k, v in ft])
        for v in violations:
            log("---- FAILED", v["oid"])
            d = v.get("detail", {})
            if isinstance(d, dict) and d.get("excerpt"):
                log(d.get("message"), d.get("where"))
                log(d["excerpt"])
        for u in undecided:
            log("---- UNDECIDED", u[:3000])
    # ---- report
    rc = 0
    printed = []
    nviol = 0
    seen = set()
    known_hits = []
    playback_budget = int(os.environ.get("VERIF_PLAYBACKS", "2"))
    for v in violations:
        if v["oid"] in seen:
            continue
        seen.add(v["oid"])
        k = known_match(known, prop, v["oid"])
        if k:
            known_hits.append(dict(obligation=v["oid"], finding=k["what"]))
            printed.append("KNOWN-FINDING: property=%s %s [%s]" % (prop, k["what"], v["oid"]))
            continue
        nviol += 1
        rp = os.path.join(root, "replay", "%s-%s.json" % (re.sub(r"[^A-Za-z0-9_.-]+", "_", prop)[:40], re.sub(r"[^A-Za-z0-9_.-]+", "_", v["oid"])[:100]))
        replay = dict(property=prop, obligation=v["oid"], backend=v["backend"], tier=tier)
        suffix = ""
        if v["backend"] == "verus":
            replay["verifier_output"] = v["detail"]
            replay["failing_input"] = None
            suffix = " no-failing-input-found"
        else:
            replay["failed_check"] = v["detail"]
            if playback_budget <= 0:
                test, raw = None, "counterexample extraction skipped: playback budget of this run used up by earlier violations (set VERIF_PLAYBACKS to raise it); CBMC output: " + v.get("raw", "")[-1500:]
            else:
                playback_budget -= 1
                test, raw = kani_playback(scratch, kres["repo"], v["harness"])
            replay["counterexample_playback_test"] = test
            if test:
                nat = kani_native_replay(scratch, kres["repo"], v["harness"], test)
                replay["native_replay_on_real_code"] = nat
                if not nat or not nat.get("reproduced"):
                    replay["note"] = "counterexample printed by CBMC; native replay did not reproduce or could not run"
            else:
                replay["verifier_output"] = raw
                suffix = " no-failing-input-found"
        json.dump(replay, open(rp, "w"), indent=1)
        printed.append("VIOLATION property=%s replay=%s%s" % (prop, rp, suffix))
        rc = 1
    for u in undecided:
        printed.append("UNDECIDED property=%s %s" % (prop, " ".join(u.split())[:600]))
    if undecided and rc == 0:
        rc = 2
    if obligations == 0 and rc == 0:
        printed.append("UNDECIDED property=%s vacuity guard: zero obligations were generated" % prop)
        rc = 2
    for ln in printed:
        print(ln)
    cover = dict(known_hits=known_hits, vacuity=vac, ures=ures, kres=kres, exp_dt=exp_dt, smt_s=smt_s, kani_time=kani_time, bounded=bounded, rewrites=rewrites,
                 other=other, undecided=undecided, units=units)
    write_evidence(ev_path, prop, tier, seed, t0, cover, fn_list, samples, sorted(trusted), violations, dict(
        obligations=obligations, discharged=discharged, nviol=nviol))
    print("%s %s: %d/%d obligations discharged, %d violation(s), %d undecided, %.1fs" % (
        prop, tier, discharged, obligations, nviol, len(undecided), time.time() - t0))
    return rc


def write_evidence(path, prop, tier, seed, t0, cover, fn_list, samples, trusted, violations, counts):
    ures = cover.get("ures", [])
    kres = cover.get("kres", {}) or {}
    cmds = [u["cmd"] for u in ures if u.get("cmd")]
    if kres.get("cmd"):
        cmds.append(kres["cmd"])
    assumptions = []
    if ures:
        assumptions += [registry.ASSUMPTIONS[a] for a in registry.VERUS_ASSUMES]
    if kres.get("harnesses"):
        for a in registry.KANI_ASSUMES:
            if registry.ASSUMPTIONS[a] not in assumptions:
                assumptions.append(registry.ASSUMPTIONS[a])
    und = cover.get("undecided", [])
    ev = dict(
        property_id=prop, tier=tier, seed=seed, level="proof",
        coverage=dict(
            obligations=counts.get("obligations", 0),
            discharged=counts.get("discharged", 0),
            checker_cmd=" ; ".join(cmds) or "none",
            trusted_base=trusted,
            samples=samples or ["(none)"],
            explanation=("Obligations = named contract clauses (+1 per function for the implicit no-overflow/no-OOB/no-panic/termination "
                         "obligations of its body) of the real functions tagged with this property, spec-level lemmas, and CBMC checks of the "
                         "complete Kani harnesses. Bounded Kani stand-ins are listed under bounded_checks and not counted."),
            functions_under_contract=fn_list,
            not_under_contract=registry.GAPS.get(prop, []),
            vacuity_guard=dict(obligation_count_nonzero=counts.get("obligations", 0) > 0,
                               requires_twins=[dict(unit=v["unit"], functions_with_requires=v.get("checked", []), vacuous=v.get("vacuous", [])) for v in cover.get("vacuity", [])]),
            bounded_checks=cover.get("bounded", []),
            backends=dict(
                verus=[dict(unit=u["unit"], verified=u["verified"], errors=u["errors"], wall_s=u["time_s"], smt_s=u.get("smt_s", 0.0),
                            undecided=u["undecided"]) for u in ures],
                kani=dict(cmd=kres.get("cmd", ""), wall_s=kres.get("time_s", 0.0), overlay_additions=kres.get("overlay", []),
                          harnesses=[dict(id=r["meta"]["id"], status=r["status"], checks=r["checks"], failed=r["failed"],
                                          cbmc_s=r["time_s"], kind=r["meta"]["kind"]) for r in kres.get("harnesses", {}).values()]),
            ),
            solver_time_s=dict(z3_via_verus=round(cover.get("smt_s", 0.0), 2), cbmc_via_kani=round(cover.get("kani_time", 0.0), 2),
                               rustc_expansion=round(cover.get("exp_dt", 0.0), 2)),
            extraction=dict(source="cargo +nightly rustc --lib -- -Zunpretty=expanded on a scratch copy of /repo's working tree",
                            rewrites=cover.get("rewrites", [])),
            known_findings_reported=cover.get("known_hits", []),
            failed_obligations=[v["oid"] for v in violations if not any(v["oid"] == kh["obligation"] for kh in cover.get("known_hits", []))],
            failures_in_functions_not_tagged_with_this_property=[v["oid"] for v in cover.get("other", [])],
            undecided=und,
            exhaustive=False,
        ),
        assumptions=assumptions,
        wall_s=round(time.time() - t0, 2),
        violations=counts.get("nviol", 0),
    )
    tmp = path + ".tmp"
    json.dump(ev, open(tmp, "w"), indent=1, default=str)
    os.replace(tmp, path)
