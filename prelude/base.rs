// ===================================================================
// TRUSTED PRELUDE (hand-written; every item here is an assumption, see DESIGN.md §1.3 / §3)
// Contracts of std / tokio / bytes / simdutf8 items the extracted code calls.
// ===================================================================

// ---- std::io::Error / ErrorKind (A4)
#[verifier::external_type_specification]
#[verifier::external_body]
pub struct ExIoError(std::io::Error);
#[verifier::external_type_specification]
pub struct ExIoErrorKind(std::io::ErrorKind);

pub uninterp spec fn io_kind(e: io::Error) -> io::ErrorKind;
pub uninterp spec fn io_msg(e: io::Error) -> String;
pub uninterp spec fn io_from_kind(k: io::ErrorKind) -> io::Error;

pub assume_specification [io::Error::kind](e: &io::Error) -> (k: io::ErrorKind)
    ensures k == io_kind(*e);

// R17: `err.to_string()` on io::Error (Display) -> this wrapper
#[verifier::external_body]
pub fn err_to_string(e: &io::Error) -> (r: String)
    ensures r == io_msg(*e)
{ e.to_string() }

// `kind.into()` : From<ErrorKind> for io::Error
#[verifier::external_body]
pub fn io_error_from_kind(k: io::ErrorKind) -> (r: io::Error)
    ensures io_kind(r) == k, r == io_from_kind(k)
{ k.into() }

pub assume_specification [<io::ErrorKind as core::cmp::PartialEq>::eq](a: &io::ErrorKind, b: &io::ErrorKind) -> (r: bool)
    ensures r == (*a == *b);

pub open spec fn kind_is_eof(k: io::ErrorKind) -> bool { k == io::ErrorKind::UnexpectedEof }

#[verifier::external_body]
pub fn kind_eq(a: &io::ErrorKind, b: &io::ErrorKind) -> (r: bool)
    ensures r == (*a == *b)
{ *a == *b }

// ---- slices (A4)
pub assume_specification<T> [std::slice::from_mut] (x: &mut T) -> (r: &mut [T])
    ensures r@ == seq![*old(x)], final(r)@.len() == 1 ==> *final(x) == final(r)@[0];
pub assume_specification<T> [std::slice::from_ref] (x: &T) -> (r: &[T])
    ensures r@ == seq![*x];

// ---- the reader: stands for tokio AsyncRead + AsyncReadExt::read_exact awaited to completion (A1, A2)
pub trait IoRead {
    spec fn stream(&self) -> Seq<u8>;      // bytes still to come
    spec fn end_kind(&self) -> io::ErrorKind; // what a read past the end yields (UnexpectedEof, or an injected fault)
    fn read_exact(&mut self, buf: &mut [u8]) -> (r: Result<(), io::Error>)
      ensures
        old(self).stream().len() >= old(buf)@.len() ==> r is Ok
            && final(buf)@ == old(self).stream().take(old(buf)@.len() as int)
            && final(self).stream() == old(self).stream().skip(old(buf)@.len() as int),
        old(self).stream().len() < old(buf)@.len() ==> r is Err
            && io_kind(r->Err_0) == old(self).end_kind()
            && final(buf)@.len() == old(buf)@.len(),
        final(self).end_kind() == old(self).end_kind();
    // AsyncReadExt::read / io::Read::read: one read of at most buf.len() bytes (not used by the pinned code; present so that
    // a change from read_exact to read is *verified against* instead of being an unsupported construct)
    fn read(&mut self, buf: &mut [u8]) -> (r: Result<usize, io::Error>)
      ensures
        final(self).end_kind() == old(self).end_kind(),
        final(buf)@.len() == old(buf)@.len(),
        r matches Ok(n) ==> n <= old(buf)@.len() && n <= old(self).stream().len()
            && final(buf)@.take(n as int) == old(self).stream().take(n as int) && final(buf)@.skip(n as int) == old(buf)@.skip(n as int)
            && final(self).stream() == old(self).stream().skip(n as int),
        r is Err ==> io_kind(r->Err_0) == old(self).end_kind() && final(self).stream() == old(self).stream();
    // AsyncReadExt::take(n).read_to_end(&mut v) (rewrite rule R32; not used by the pinned code, present for the same reason as
    // `read`): appends at most n bytes; running out of input is NOT an error when the stream ends with EOF (fewer bytes are
    // returned), and is the transport's error otherwise
    fn take_read_to_end(&mut self, n: u64, buf: &mut Vec<u8>) -> (r: Result<usize, io::Error>)
      ensures
        final(self).end_kind() == old(self).end_kind(),
        old(self).stream().len() >= n ==> r == Ok::<usize, io::Error>(n as usize)
            && final(buf)@ == old(buf)@ + old(self).stream().take(n as int)
            && final(self).stream() == old(self).stream().skip(n as int),
        old(self).stream().len() < n && old(self).end_kind() == io::ErrorKind::UnexpectedEof ==> r == Ok::<usize, io::Error>(old(self).stream().len() as usize)
            && final(buf)@ == old(buf)@ + old(self).stream()
            && final(self).stream().len() == 0,
        old(self).stream().len() < n && old(self).end_kind() != io::ErrorKind::UnexpectedEof ==> r is Err && io_kind(r->Err_0) == old(self).end_kind();
}

// ---- the writer: stands for std::io::Write::write_all (A3)
pub trait IoWrite {
    spec fn written(&self) -> Seq<u8>;
    spec fn can_fail(&self) -> bool;
    fn write_all(&mut self, d: &[u8]) -> (r: Result<(), io::Error>)
      ensures
        r is Ok ==> final(self).written() == old(self).written() + d@,
        r is Err ==> wrote_prefix(old(self).written(), final(self).written(), d@) && old(self).can_fail(),
        final(self).can_fail() == old(self).can_fail();
    // io::Write::write: may accept only a prefix (present for the same reason as IoRead::read)
    fn write(&mut self, d: &[u8]) -> (r: Result<usize, io::Error>)
      ensures
        r matches Ok(n) ==> n <= d@.len() && final(self).written() == old(self).written() + d@.take(n as int),
        r is Err ==> final(self).written() == old(self).written() && old(self).can_fail(),
        final(self).can_fail() == old(self).can_fail();
}

pub open spec fn is_prefix(a: Seq<u8>, b: Seq<u8>) -> bool {
    a.len() <= b.len() && b.take(a.len() as int) =~= a
}
/// `now` extends `before` by a prefix of `full`
pub open spec fn wrote_prefix(before: Seq<u8>, now: Seq<u8>, full: Seq<u8>) -> bool {
    is_prefix(before, now) && is_prefix(now, before + full)
}

// (proved, not assumed) prefix algebra used at the `?` exits of the encoders
pub broadcast proof fn lemma_prefix_add(a: Seq<u8>, d: Seq<u8>)
    ensures is_prefix(a, #[trigger] (a + d))
{
    assert((a + d).take(a.len() as int) =~= a);
}
pub broadcast proof fn lemma_prefix_trans(a: Seq<u8>, b: Seq<u8>, c: Seq<u8>)
    requires #[trigger] is_prefix(a, b), #[trigger] is_prefix(b, c)
    ensures is_prefix(a, c)
{
    assert(c.take(a.len() as int) =~= b.take(a.len() as int));
}
pub broadcast group group_prefix { lemma_prefix_add, lemma_prefix_trans }


// ---- u8 bit operations with constant masks / shifts, as arithmetic (each proved by(bit_vector)); opt-in per function (`@opt bits=1`):
//      makes proofs about flag bytes independent of how the code spells a bit test (`x & m != 0`, `x & m == m`, `(x >> k) & 1 == 1`, ...)
pub broadcast proof fn lemma_u8_and_1(x: u8) ensures #[trigger] (x & 1u8) == ((x / 1u8) % 2u8) * 1u8 { assert((x & 1u8) == ((x / 1u8) % 2u8) * 1u8) by (bit_vector); }
pub broadcast proof fn lemma_u8_and_2(x: u8) ensures #[trigger] (x & 2u8) == ((x / 2u8) % 2u8) * 2u8 { assert((x & 2u8) == ((x / 2u8) % 2u8) * 2u8) by (bit_vector); }
pub broadcast proof fn lemma_u8_and_4(x: u8) ensures #[trigger] (x & 4u8) == ((x / 4u8) % 2u8) * 4u8 { assert((x & 4u8) == ((x / 4u8) % 2u8) * 4u8) by (bit_vector); }
pub broadcast proof fn lemma_u8_and_8(x: u8) ensures #[trigger] (x & 8u8) == ((x / 8u8) % 2u8) * 8u8 { assert((x & 8u8) == ((x / 8u8) % 2u8) * 8u8) by (bit_vector); }
pub broadcast proof fn lemma_u8_and_16(x: u8) ensures #[trigger] (x & 16u8) == ((x / 16u8) % 2u8) * 16u8 { assert((x & 16u8) == ((x / 16u8) % 2u8) * 16u8) by (bit_vector); }
pub broadcast proof fn lemma_u8_and_32(x: u8) ensures #[trigger] (x & 32u8) == ((x / 32u8) % 2u8) * 32u8 { assert((x & 32u8) == ((x / 32u8) % 2u8) * 32u8) by (bit_vector); }
pub broadcast proof fn lemma_u8_and_64(x: u8) ensures #[trigger] (x & 64u8) == ((x / 64u8) % 2u8) * 64u8 { assert((x & 64u8) == ((x / 64u8) % 2u8) * 64u8) by (bit_vector); }
pub broadcast proof fn lemma_u8_and_128(x: u8) ensures #[trigger] (x & 128u8) == ((x / 128u8) % 2u8) * 128u8 { assert((x & 128u8) == ((x / 128u8) % 2u8) * 128u8) by (bit_vector); }
pub broadcast proof fn lemma_u8_and_3(x: u8) ensures #[trigger] (x & 3u8) == ((x / 1u8) % 4u8) * 1u8 { assert((x & 3u8) == ((x / 1u8) % 4u8) * 1u8) by (bit_vector); }
pub broadcast proof fn lemma_u8_and_6(x: u8) ensures #[trigger] (x & 6u8) == ((x / 2u8) % 4u8) * 2u8 { assert((x & 6u8) == ((x / 2u8) % 4u8) * 2u8) by (bit_vector); }
pub broadcast proof fn lemma_u8_and_12(x: u8) ensures #[trigger] (x & 12u8) == ((x / 4u8) % 4u8) * 4u8 { assert((x & 12u8) == ((x / 4u8) % 4u8) * 4u8) by (bit_vector); }
pub broadcast proof fn lemma_u8_and_24(x: u8) ensures #[trigger] (x & 24u8) == ((x / 8u8) % 4u8) * 8u8 { assert((x & 24u8) == ((x / 8u8) % 4u8) * 8u8) by (bit_vector); }
pub broadcast proof fn lemma_u8_and_48(x: u8) ensures #[trigger] (x & 48u8) == ((x / 16u8) % 4u8) * 16u8 { assert((x & 48u8) == ((x / 16u8) % 4u8) * 16u8) by (bit_vector); }
pub broadcast proof fn lemma_u8_and_96(x: u8) ensures #[trigger] (x & 96u8) == ((x / 32u8) % 4u8) * 32u8 { assert((x & 96u8) == ((x / 32u8) % 4u8) * 32u8) by (bit_vector); }
pub broadcast proof fn lemma_u8_and_192(x: u8) ensures #[trigger] (x & 192u8) == ((x / 64u8) % 4u8) * 64u8 { assert((x & 192u8) == ((x / 64u8) % 4u8) * 64u8) by (bit_vector); }
pub broadcast proof fn lemma_u8_and_15(x: u8) ensures #[trigger] (x & 15u8) == ((x / 1u8) % 16u8) * 1u8 { assert((x & 15u8) == ((x / 1u8) % 16u8) * 1u8) by (bit_vector); }
pub broadcast proof fn lemma_u8_and_240(x: u8) ensures #[trigger] (x & 240u8) == ((x / 16u8) % 16u8) * 16u8 { assert((x & 240u8) == ((x / 16u8) % 16u8) * 16u8) by (bit_vector); }
pub broadcast proof fn lemma_u8_and_127(x: u8) ensures #[trigger] (x & 127u8) == ((x / 1u8) % 128u8) * 1u8 { assert((x & 127u8) == ((x / 1u8) % 128u8) * 1u8) by (bit_vector); }
pub broadcast proof fn lemma_u8_and_7(x: u8) ensures #[trigger] (x & 7u8) == ((x / 1u8) % 8u8) * 1u8 { assert((x & 7u8) == ((x / 1u8) % 8u8) * 1u8) by (bit_vector); }
pub broadcast proof fn lemma_u8_and_14(x: u8) ensures #[trigger] (x & 14u8) == ((x / 2u8) % 8u8) * 2u8 { assert((x & 14u8) == ((x / 2u8) % 8u8) * 2u8) by (bit_vector); }
pub broadcast proof fn lemma_u8_shr_1(x: u8) ensures #[trigger] (x >> 1u8) == x / 2u8 { assert((x >> 1u8) == x / 2u8) by (bit_vector); }
pub broadcast proof fn lemma_u8_shl_1(x: u8) ensures #[trigger] (x << 1u8) == ((x % 128u8) * 2u8) as u8 { assert((x << 1u8) == ((x % 128u8) * 2u8) as u8) by (bit_vector); }
pub broadcast proof fn lemma_u8_shr_2(x: u8) ensures #[trigger] (x >> 2u8) == x / 4u8 { assert((x >> 2u8) == x / 4u8) by (bit_vector); }
pub broadcast proof fn lemma_u8_shl_2(x: u8) ensures #[trigger] (x << 2u8) == ((x % 64u8) * 4u8) as u8 { assert((x << 2u8) == ((x % 64u8) * 4u8) as u8) by (bit_vector); }
pub broadcast proof fn lemma_u8_shr_3(x: u8) ensures #[trigger] (x >> 3u8) == x / 8u8 { assert((x >> 3u8) == x / 8u8) by (bit_vector); }
pub broadcast proof fn lemma_u8_shl_3(x: u8) ensures #[trigger] (x << 3u8) == ((x % 32u8) * 8u8) as u8 { assert((x << 3u8) == ((x % 32u8) * 8u8) as u8) by (bit_vector); }
pub broadcast proof fn lemma_u8_shr_4(x: u8) ensures #[trigger] (x >> 4u8) == x / 16u8 { assert((x >> 4u8) == x / 16u8) by (bit_vector); }
pub broadcast proof fn lemma_u8_shl_4(x: u8) ensures #[trigger] (x << 4u8) == ((x % 16u8) * 16u8) as u8 { assert((x << 4u8) == ((x % 16u8) * 16u8) as u8) by (bit_vector); }
pub broadcast proof fn lemma_u8_shr_5(x: u8) ensures #[trigger] (x >> 5u8) == x / 32u8 { assert((x >> 5u8) == x / 32u8) by (bit_vector); }
pub broadcast proof fn lemma_u8_shl_5(x: u8) ensures #[trigger] (x << 5u8) == ((x % 8u8) * 32u8) as u8 { assert((x << 5u8) == ((x % 8u8) * 32u8) as u8) by (bit_vector); }
pub broadcast proof fn lemma_u8_shr_6(x: u8) ensures #[trigger] (x >> 6u8) == x / 64u8 { assert((x >> 6u8) == x / 64u8) by (bit_vector); }
pub broadcast proof fn lemma_u8_shl_6(x: u8) ensures #[trigger] (x << 6u8) == ((x % 4u8) * 64u8) as u8 { assert((x << 6u8) == ((x % 4u8) * 64u8) as u8) by (bit_vector); }
pub broadcast proof fn lemma_u8_shr_7(x: u8) ensures #[trigger] (x >> 7u8) == x / 128u8 { assert((x >> 7u8) == x / 128u8) by (bit_vector); }
pub broadcast proof fn lemma_u8_shl_7(x: u8) ensures #[trigger] (x << 7u8) == ((x % 2u8) * 128u8) as u8 { assert((x << 7u8) == ((x % 2u8) * 128u8) as u8) by (bit_vector); }
pub broadcast proof fn lemma_u8_or(x: u8, y: u8) ensures #[trigger] (x | y) == x + y - (x & y) { assert((x | y) == x + y - (x & y)) by (bit_vector); assert((x & y) <= x && (x & y) <= y) by (bit_vector); }
pub broadcast group group_bits8 { lemma_u8_and_1, lemma_u8_and_2, lemma_u8_and_4, lemma_u8_and_8, lemma_u8_and_16, lemma_u8_and_32, lemma_u8_and_64, lemma_u8_and_128, lemma_u8_and_3, lemma_u8_and_6, lemma_u8_and_12, lemma_u8_and_24, lemma_u8_and_48, lemma_u8_and_96, lemma_u8_and_192, lemma_u8_and_15, lemma_u8_and_240, lemma_u8_and_127, lemma_u8_and_7, lemma_u8_and_14, lemma_u8_shr_1, lemma_u8_shl_1, lemma_u8_shr_2, lemma_u8_shl_2, lemma_u8_shr_3, lemma_u8_shl_3, lemma_u8_shr_4, lemma_u8_shl_4, lemma_u8_shr_5, lemma_u8_shl_5, lemma_u8_shr_6, lemma_u8_shl_6, lemma_u8_shr_7, lemma_u8_shl_7, lemma_u8_or }

// Vec<u8> as a sink: never fails (std's impl Write for Vec<u8>)
impl IoWrite for Vec<u8> {
    open spec fn written(&self) -> Seq<u8> { self@ }
    open spec fn can_fail(&self) -> bool { false }
    #[verifier::external_body]
    fn write_all(&mut self, d: &[u8]) -> (r: Result<(), io::Error>)
    { std::io::Write::write_all(self, d) }
    #[verifier::external_body]
    fn write(&mut self, d: &[u8]) -> (r: Result<usize, io::Error>)
    { std::io::Write::write(self, d) }
}

// &[u8] as a source: always ready, EOF when exhausted (tokio's impl AsyncRead for &[u8])
impl<'a> IoRead for &'a [u8] {
    open spec fn stream(&self) -> Seq<u8> { self@ }
    open spec fn end_kind(&self) -> io::ErrorKind { io::ErrorKind::UnexpectedEof }
    #[verifier::external_body]
    fn read_exact(&mut self, buf: &mut [u8]) -> (r: Result<(), io::Error>)
    { std::io::Read::read_exact(self, buf) }
    #[verifier::external_body]
    fn read(&mut self, buf: &mut [u8]) -> (r: Result<usize, io::Error>)
    { std::io::Read::read(self, buf) }
    #[verifier::external_body]
    fn take_read_to_end(&mut self, n: u64, buf: &mut Vec<u8>) -> (r: Result<usize, io::Error>)
    { std::io::Read::read_to_end(&mut std::io::Read::take(self, n), buf) }
}

// ---- big-endian helpers (R5; contracts cross-checked for all inputs by Kani harness k_be_bytes)
pub open spec fn be16(hi: u8, lo: u8) -> u16 { (hi as u16 * 256 + lo as u16) as u16 }
pub open spec fn be32(b0: u8, b1: u8, b2: u8, b3: u8) -> u32 {
    (b0 as u32 * 16777216 + b1 as u32 * 65536 + b2 as u32 * 256 + b3 as u32) as u32
}
pub open spec fn enc_u8(v: u8) -> Seq<u8> { seq![v] }
pub open spec fn enc_u16(v: u16) -> Seq<u8> { seq![(v / 256) as u8, (v % 256) as u8] }
pub open spec fn enc_u32(v: u32) -> Seq<u8> {
    seq![(v / 16777216) as u8, ((v / 65536) % 256) as u8, ((v / 256) % 256) as u8, (v % 256) as u8]
}
#[verifier::external_body]
pub fn u16_from_be_bytes(b: [u8; 2]) -> (r: u16) ensures r == be16(b@[0], b@[1]) { u16::from_be_bytes(b) }
#[verifier::external_body]
pub fn u32_from_be_bytes(b: [u8; 4]) -> (r: u32) ensures r == be32(b@[0], b@[1], b@[2], b@[3]) { u32::from_be_bytes(b) }
#[verifier::external_body]
pub fn u16_to_be_bytes(v: u16) -> (r: [u8; 2]) ensures r@ == enc_u16(v) { v.to_be_bytes() }
#[verifier::external_body]
pub fn u32_to_be_bytes(v: u32) -> (r: [u8; 4]) ensures r@ == enc_u32(v) { v.to_be_bytes() }

// R26: From<bool> for u8 (vstd leaves it unspecified); cross-checked by Kani harness deps.be-bytes
#[verifier::external_body]
pub fn u8_from_bool(b: bool) -> (r: u8) ensures r == (if b { 1u8 } else { 0u8 }) { u8::from(b) }

// ---- strings (A4): String's bytes are encode_utf8 of its chars
pub open spec fn sbytes(s: Seq<char>) -> Seq<u8> { vstd::utf8::encode_utf8(s) }

pub assume_specification [String::len](s: &String) -> (r: usize)
    ensures r == sbytes(s@).len();
pub assume_specification [String::as_bytes](s: &String) -> (r: &[u8])
    ensures r@ == sbytes(s@);
pub assume_specification [String::from_utf8_unchecked](v: Vec<u8>) -> (r: String)
    requires vstd::utf8::valid_utf8(v@)
    ensures r@ == vstd::utf8::decode_utf8(v@);

// simdutf8::basic::from_utf8 (R12): validity test only; the &str it returns is unused by the crate
pub struct Utf8Error;
#[verifier::external_body]
pub fn from_utf8(b: &[u8]) -> (r: Result<(), Utf8Error>)
    ensures r is Ok <==> vstd::utf8::valid_utf8(b@)
{ match std::str::from_utf8(b) { Ok(_) => Ok(()), Err(_) => Err(Utf8Error) } }

// ---- bytes::Bytes (R12): opaque immutable byte string
#[verifier::external_body]
#[verifier::accept_recursive_types]
#[derive(PartialEq, Eq)]
pub struct Bytes { inner: Vec<u8> }
impl Bytes {
    pub uninterp spec fn view(&self) -> Seq<u8>;
    #[verifier::external_body]
    pub fn from(v: Vec<u8>) -> (r: Bytes) ensures r@ == v@ { Bytes { inner: v } }
    #[verifier::external_body]
    pub fn len(&self) -> (r: usize) ensures r == self@.len() { self.inner.len() }
    #[verifier::external_body]
    pub fn is_empty(&self) -> (r: bool) ensures r == (self@.len() == 0) { self.inner.is_empty() }
    #[verifier::external_body]
    pub fn as_ref(&self) -> (r: &[u8]) ensures r@ == self@ { &self.inner[..] }
}

// ---- str range indexing (A4): `&s[a..b]` / `&s[a..]` return the sub-string between two char boundaries
//      (std panics when an index is not on a char boundary or out of range: that is the `requires`)
pub open spec fn byte_off(s: Seq<char>, k: int) -> nat { sbytes(s.take(k)).len() }
#[verifier::external_body]
pub fn str_slice<'a>(s: &'a str, a: usize, b: usize) -> (r: &'a str)
    requires exists|ka: int, kb: int| 0 <= ka <= kb <= s@.len() && byte_off(s@, ka) == a && byte_off(s@, kb) == b
    ensures forall|ka: int, kb: int| 0 <= ka <= kb <= s@.len() && byte_off(s@, ka) == a && byte_off(s@, kb) == b ==> r@ == s@.subrange(ka, kb)
{ &s[a..b] }
#[verifier::external_body]
pub fn str_slice_from<'a>(s: &'a str, a: usize) -> (r: &'a str)
    requires exists|ka: int| 0 <= ka <= s@.len() && byte_off(s@, ka) == a
    ensures forall|ka: int| 0 <= ka <= s@.len() && byte_off(s@, ka) == a ==> r@ == s@.subrange(ka, s@.len() as int)
{ &s[a..] }
// str::starts_with(&str) (R28)
#[verifier::external_body]
pub fn str_starts_with(s: &str, pat: &str) -> (r: bool)
    ensures r == (pat@.len() <= s@.len() && s@.take(pat@.len() as int) == pat@)
{ s.starts_with(pat) }

// str::starts_with(char) (R31)
#[verifier::external_body]
pub fn str_starts_with_char(s: &str, c: char) -> (r: bool)
    ensures r == (s@.len() > 0 && s@[0] == c)
{ s.starts_with(c) }

// ---- String comparison / hashing (A4): uninterpreted functions of the two texts
pub uninterp spec fn text_order(a: Seq<char>, b: Seq<char>) -> core::cmp::Ordering;
#[verifier::external_body]
pub fn string_cmp(a: &String, b: &String) -> (r: core::cmp::Ordering) ensures r == text_order(a@, b@) { a.cmp(b) }
#[verifier::external_body]
pub fn string_eq(a: &String, b: &String) -> (r: bool) ensures r == (a@ == b@) { a == b }
