#!/bin/bash
# run every registered check once (quick) and summarise
cd "$(dirname "$0")/.."
for p in C01 C02 C03 C04 C05 C06 C07 C08 C09 C10 C11 C12 C13 C14 C15 C16 C17 C18 C19 C20; do
  s=$(date +%s)
  out=$(timeout 3000 ./vcheck $p ${1:-quick} 2>/dev/null)
  rc=$?
  out=$(echo "$out" | tail -n 8)
  e=$(date +%s)
  echo "$p rc=$rc $((e-s))s :: $(echo "$out" | tail -1)"
  echo "$out" | grep "VIOLATION\|UNDECIDED\|KNOWN" | head -5
done
