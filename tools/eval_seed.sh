#!/bin/bash
# eval_seed.sh <seed-id> [prop ...] : run the registered checks against a scratch copy of /repo with the seeded change applied
# (equivalent to `git -C /repo apply patch.diff; ./vcheck ..; git -C /repo checkout -- .` but leaves /repo untouched)
set -u
cd "$(dirname "$0")/.."
S=$1; shift
D=seeded/$S
P=$(python3 -c "import json;print(json.load(open('$D/meta.json'))['property'])")
PROPS=${@:-$P}
R=$(mktemp -d /var/tmp/seedrepo.XXXX)
rsync -a --exclude target --exclude fuzz /repo/ $R/
git -C $R apply "$(pwd)/$D/patch.diff" || { echo "$S: patch does not apply"; rm -rf $R; exit 2; }
for p in $PROPS; do
  out=$(VERIF_REPO=$R VERIF_EVIDENCE_DIR=/var/tmp/seed-evidence timeout 1800 ./vcheck $p quick 2>/dev/null)
  rc=$?
  echo "$S $p rc=$rc :: $(echo "$out" | grep -c '^VIOLATION') violation line(s)"
  echo "$out" | grep "^VIOLATION\|^UNDECIDED" | cut -c1-220 | head -6
  python3 - "$D" "$p" "$rc" <<PY
import json,sys,os
d,p,rc=sys.argv[1],sys.argv[2],int(sys.argv[3])
f=os.path.join(d,'result.json')
r=json.load(open(f)) if os.path.exists(f) else {}
r[p]={'exit':rc,'lines':[l for l in """$out""".split('\n') if l.startswith(('VIOLATION','UNDECIDED','KNOWN'))][:8]}
json.dump(r,open(f,'w'),indent=1)
PY
done
rm -rf $R
