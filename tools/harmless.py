#!/usr/bin/env python3
"""harmless.py — false-alarm self-test: behaviour-preserving edits of /repo (each on its own scratch copy) must never make a check
report a VIOLATION (exit 1); exit 0 (still proved) or exit 2 (undecided: proof no longer goes through) are both acceptable.
Cases named X* are *real* changes placed next to the harmless ones (same expressions) and must still be reported.

  harmless.py [case ...]      run the cases (default: all), print one block per case and write seeded/HARMLESS.md
"""
import os, re, subprocess, sys, shutil
V = os.path.dirname(os.path.dirname(os.path.abspath(__file__)))
W = os.environ.get("HARM_WORK", "/var/tmp/harm")
CASES = [
 ("H1", "src/common/utils.rs", "        len /= 128;", "        len = len / 128;", "prim|k_write_var_int"),
 ("H2", "src/common/utils.rs", "            byte |= 128;", "            byte = byte | 128;", "prim|k_write_var_int"),
 ("H3", "src/common/utils.rs", "    if total_len < 128 + 2 {", "    if total_len < 130 {", "prim|k_len_tables"),
 ("H4", "src/v3/publish.rs", "let payload = if remaining_len > 0 {", "let payload = if remaining_len != 0 {", "v3|^$"),
 ("H5", "src/v5/types.rs", "            $property_len += 1 + 4;", "            $property_len += 5;", "v5props,v5acks|^$"),
 ("H6", "src/v3/connect.rs", "if connect_flags & 1 != 0 {", "if (connect_flags & 1) == 1 {", "v3|^$"),
 ("H8", "src/common/utils.rs", "        if len == 0 {\n            break;\n        }", "        if len < 1 {\n            break;\n        }", "prim|k_write_var_int"),
 ("H9", "src/v3/connect.rs", "let retain = (connect_flags & 0b00100000) != 0;", "let retain = (connect_flags & 0b00100000) == 0b00100000;", "v3|^$"),
 ("H11", "src/v3/connect.rs", "let last_will = if connect_flags & 0b100 != 0 {", "let last_will = if (connect_flags >> 2) & 1 == 1 {", "v3|^$"),
 ("H12", "src/v3/connect.rs", "if connect_flags & 1 != 0 {", "if connect_flags % 2 == 1 {", "v3|^$"),
 ("H13", "src/v3/connect.rs", "let qos = QoS::from_u8((connect_flags & 0b11000) >> 3)?;", "let qos = QoS::from_u8((connect_flags >> 3) & 0b11)?;", "v3|^$"),
 ("H14", "src/v3/connect.rs", "            connect_flags |= 0b10;\n        }\n        if self.username.is_some() {", "            connect_flags += 0b10;\n        }\n        if self.username.is_some() {", "v3|^$"),
 ("H15", "src/v3/connect.rs", "            connect_flags |= (last_will.qos as u8) << 3;", "            connect_flags |= (last_will.qos as u8) * 8;", "v3|^$"),
 ("H16", "src/v3/connect.rs", "        length += 1 + 2;", "        length += 3;", "v3|^$"),
 ("H17", "src/v3/connect.rs", "        4 + self.topic_name.len() + self.message.len()", "        self.topic_name.len() + self.message.len() + 4", "v3|^$"),
 ("H18", "src/v5/connect.rs", "let clean_start = (connect_flags & 0b10) != 0;", "let clean_start = (connect_flags & 0b10) == 0b10;", "v5body|^$"),
 ("H19", "src/v5/subscribe.rs", "QoS::from_u8(opt_byte & 0b11)", "QoS::from_u8(opt_byte % 4)", "v5body|^$"),
 ("H20", "src/v3/packet.rs", "control_byte |= 0b00001000;", "control_byte += 8;", "v3|^$"),
 ("H21", "src/v3/connect.rs", "        if self.username.is_some() {\n            connect_flags |= 0b10000000;\n        }\n        if self.password.is_some() {\n            connect_flags |= 0b01000000;\n        }", "        if self.password.is_some() {\n            connect_flags |= 0b01000000;\n        }\n        if self.username.is_some() {\n            connect_flags |= 0b10000000;\n        }", "v3|^$"),
 ("H22", "src/common/utils.rs", "        if byte & 0x80 == 0 {", "        if byte < 0x80 {", "prim|^$"),
 ("H23", "src/common/utils.rs", "var_int |= (u32::from(byte) & 0x7F) << (7 * i);", "var_int |= u32::from(byte & 0x7F) << (7 * i);", "prim|^$"),
 ("H24", "src/common/utils.rs", "var_int |= (u32::from(byte) & 0x7F) << (7 * i);", "var_int += (u32::from(byte) & 0x7F) << (7 * i);", "prim|^$"),
 ("H25", "src/v3/subscribe.rs", "        while remaining_len > 0 {\n", "        while remaining_len != 0 {\n", "v3|^$"),
 ("H26", "src/v3/subscribe.rs", "            remaining_len -= 1;", "            remaining_len = remaining_len - 1;", "v3|^$"),
 ("H27", "src/v5/publish.rs", "        } else if header.remaining_len == 3 {", "        } else if 3 == header.remaining_len {", "v5acks,v5body|^$"),
 ("H28", "src/v5/publish.rs", "let payload = if remaining_len > 0 {", "let payload = if remaining_len >= 1 {", "v5body|^$"),
 ("H29", "src/common/types.rs", "        if value.is_empty() {", "        if value.len() == 0 {", "topic|k_filter_plain"),
 ("H30", "src/common/poll.rs", "                                *var_idx += 1;", "                                *var_idx = *var_idx + 1;", "|k_poll_(header|body)_step$"),
 ("H31", "src/common/poll.rs", "                            if byte & 0x80 == 0 {", "                            if byte < 0x80 {", "|k_poll_(header|body)_step$"),
 ("H32", "src/common/poll.rs", "*var_int |= (u32::from(byte) & 0x7F) << (7 * u32::from(*var_idx));", "*var_int += u32::from(byte & 0x7F) << (7 * u32::from(*var_idx));", "|k_poll_(header|body)_step$"),
 ("H33", "src/common/poll.rs", "if header.remaining_len() != 0 {\n                            return Poll::Ready(Err(Error::InvalidRemainingLength.into()));", "if header.remaining_len() > 0 {\n                            return Poll::Ready(Err(Error::InvalidRemainingLength.into()));", "|k_poll_(header|body)_step$"),
 ("X3", "src/common/poll.rs", "                            } else if *var_idx < 3 {", "                            } else if *var_idx < 4 {", "|k_poll_(header|body)_step$"),
 ("X1", "src/v3/connect.rs", "let retain = (connect_flags & 0b00100000) != 0;", "let retain = (connect_flags & 0b01000000) != 0;", "v3|^$"),
 ("X2", "src/v3/connect.rs", "let last_will = if connect_flags & 0b100 != 0 {", "let last_will = if (connect_flags >> 3) & 1 == 1 {", "v3|^$"),
]

def sh(cmd, cwd=None, env=None, timeout=3000):
    e = dict(os.environ); e.update(env or {})
    r = subprocess.run(cmd, shell=True, cwd=cwd, env=e, stdout=subprocess.PIPE, stderr=subprocess.STDOUT, text=True, timeout=timeout)
    return r.returncode, r.stdout


def main():
    only = sys.argv[1:]
    rows = []
    os.makedirs(W, exist_ok=True)
    for name, f, old, new, cover in CASES:
        if only and name not in only:
            continue
        if old is None or cover is None:
            continue
        d = os.path.join(W, name)
        shutil.rmtree(d, ignore_errors=True)
        sh("rsync -a --exclude target --exclude fuzz --exclude .git /repo/ %s/" % d)
        p = os.path.join(d, f)
        s = open(p).read()
        if s.count(old) < 1:
            print(name, "pattern not found")
            rows.append((name, f, new, "-", "pattern not found in the current tree"))
            continue
        open(p, "w").write(s.replace(old, new, 1))
        rc, out = sh("cargo test --workspace --offline 2>&1 | grep 'test result' ", cwd=d, env=dict(CARGO_TARGET_DIR=os.path.join(W, "target")))
        ok = bool(re.search(r"test result: ok\. 73 passed", out))
        units, kani = cover.split("|", 1)
        rc, out = sh("%s/vcheck 'MUT:%s|%s' quick 2>&1 | grep -a '^VIOLATION\\|^UNDECIDED\\|obligations discharged' | cut -c1-300" % (V, units, kani),
                     env=dict(VERIF_REPO=d, VERIF_EVIDENCE_DIR=os.path.join(W, "ev"), VERIF_PLAYBACKS="0"))
        viol = "VIOLATION" in out
        und = "UNDECIDED" in out
        verdict = "VIOLATION" if viol else ("undecided" if und else "proved")
        expect_viol = name.startswith("X")
        good = (viol == expect_viol)
        print("==", name, f, "tests-ok" if ok else "tests-fail", "::", " ".join(new.split())[:70], "->", verdict, "" if good else "   <<<< UNEXPECTED")
        print(out.strip())
        sys.stdout.flush()
        rows.append((name, f, " ".join(old.split())[:70] + "  =>  " + " ".join(new.split())[:70], "pass" if ok else "fail", verdict + ("" if good else " (UNEXPECTED)")))
        shutil.rmtree(d, ignore_errors=True)
    if not only:
        md = ["# Behaviour-preserving edits (tools/harmless.py)", "",
              "Each edit is applied to a scratch copy of /repo; the covering units / harnesses are run (`vcheck MUT:...`).",
              "`proved` = all obligations still discharged, `undecided` = exit 2, `VIOLATION` = exit 1 (expected only for the X* rows, which are real changes).", "",
              "| case | file | edit | tests | verdict |", "|---|---|---|---|---|"]
        for r in rows:
            md.append("| %s | %s | `%s` | %s | %s |" % tuple(x.replace("|", "\\|") for x in r))
        open(os.path.join(V, "seeded", "HARMLESS.md"), "w").write("\n".join(md) + "\n")


if __name__ == "__main__":
    main()
