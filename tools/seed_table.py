#!/usr/bin/env python3
"""Summarise seeded/*/result.json into seeded/RESULTS.md (which checks catch which seeded changes)."""
import json, os, glob
root = os.path.join(os.path.dirname(os.path.abspath(__file__)), "..", "seeded")
rows = []
for d in sorted(glob.glob(os.path.join(root, "*"))):
    if not os.path.isdir(d):
        continue
    sid = os.path.basename(d)
    meta = json.load(open(os.path.join(d, "meta.json")))
    res = json.load(open(os.path.join(d, "result.json"))) if os.path.exists(os.path.join(d, "result.json")) else {}
    for prop, r in sorted(res.items()) or [("-", None)]:
        if r is None:
            rows.append((sid, meta.get("property", "?"), "not evaluated", "", meta.get("summary", "")))
            continue
        ex = r["exit"]
        verdict = {0: "MISSED (exit 0)", 1: "caught", 2: "undecided (exit 2)"}.get(ex, "exit %d" % ex)
        obl = []
        for ln in r.get("lines", []):
            if ln.startswith("VIOLATION"):
                rp = ln.split("replay=")[1].split()[0]
                obl.append(os.path.basename(rp).replace(".json", "").split("-", 1)[1])
            elif ln.startswith("UNDECIDED"):
                obl.append(ln[:140])
        rows.append((sid, prop, verdict, "; ".join(obl[:3]), " ".join(meta.get("summary", "").split())[:150]))
out = ["# Seeded changes and the checks that catch them", "",
       "Each row: a change to /repo that breaks the property, compiles and passes the 73 tests (confirmed in a scratch worktree, see meta.json),",
       "evaluated with `tools/eval_seed.sh <id>` (= apply patch to a copy of /repo, run `./vcheck <prop> quick`).", "",
       "| seed | property run | verdict | failed obligation(s) | change |", "|---|---|---|---|---|"]
for r in rows:
    out.append("| %s | %s | %s | %s | %s |" % r)
n = len(rows)
c = sum(1 for r in rows if r[2] == "caught")
out += ["", "caught %d of %d evaluated (seed, property) pairs; `undecided` = the check refused to decide (lost anchor / construct outside the verified subset), `MISSED` = check passed." % (c, n)]
hist = []
for d in sorted(glob.glob(os.path.join(root, "*"))):
    mp = os.path.join(d, "meta.json")
    if os.path.isdir(d) and os.path.exists(mp):
        h = json.load(open(mp)).get("evaluation_history")
        if h:
            hist.append("* %s: %s" % (os.path.basename(d), h))
if hist:
    out += ["", "## Evaluation history (what the first evaluation said, what was strengthened)", ""] + hist
open(os.path.join(root, "RESULTS.md"), "w").write("\n".join(out) + "\n")
print("\n".join(out[-3:]))
