#!/bin/bash
# dev1.sh <unit> <function-pattern> [extra verus args]  : generate one unit from a cached expansion and verify one function
set -e
U=$1; F=$2; shift 2
D=/var/tmp/vdev
mkdir -p $D
if [ ! -s $D/expanded.rs ] || [ /repo/src -nt $D/expanded.rs ]; then
  rm -rf $D/repo; rsync -a --exclude target --exclude fuzz --exclude .git /repo/ $D/repo/
  (cd $D/repo && CARGO_TARGET_DIR=$D/target cargo +nightly rustc --lib --offline -- -Zunpretty=expanded > $D/expanded.rs 2>$D/expand.err)
fi
python3 - "$U" <<'PY'
import sys, json
sys.path.insert(0, '/verif/lib')
import rtok, gen, registry
u = registry.UNITS[sys.argv[1]]
idx = rtok.index_items(rtok.parse_items(rtok.tokenize(open('/var/tmp/vdev/expanded.rs').read())))
text, origin, info = gen.build_unit(idx, u['verify'], u['trusted'], u['spec'], '/verif', spec_import=u.get('spec_import', ()), module_ext=u.get('module_ext', True))
open('/var/tmp/vdev/u_%s.rs' % sys.argv[1], 'w').write(text)
PY
cd $D
if [ "$F" = "all" ]; then
  timeout 900 verus u_$U.rs --num-threads 12 "$@" 2>&1 | grep -v "^warning\|^\s*= note\|^$" | grep -A14 "^error\|results" | head -120
else
  timeout 600 verus u_$U.rs --verify-only-module code --verify-function "$F" "$@" 2>&1 | grep -v "^warning\|^\s*= note\|^$" | grep -A14 "^error\|results" | head -120
fi
