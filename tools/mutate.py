#!/usr/bin/env python3
"""mutate.py — systematic self-test of the checks: small token-level changes of /repo's sources.

  mutate.py gen  [--seed N] [--per-file K]        list candidate mutants      -> <work>/mutants.json
  mutate.py run  [--jobs J] [--only REGEX]        for each mutant: does it build and pass the pinned test suite?
                                                  if yes (a *survivor*): run the units / harnesses that cover its file
                                                  -> <work>/results.jsonl, summary on stdout
  mutate.py table                                 seeded/MUTATION.md from results.jsonl

Every mutant lives in its own scratch copy of /repo under <work> (default /var/tmp/mut); /repo itself is never touched.
A survivor is `caught` (a named obligation failed: exit 1), `undecided` (exit 2) or `missed` (exit 0). Missed survivors are
either equivalent mutants (same behaviour) or holes in the contracts; they are listed for inspection.
"""
import json
import os
import random
import re
import shutil
import subprocess
import sys
import concurrent.futures as cf

ROOT = os.path.dirname(os.path.dirname(os.path.abspath(__file__)))
REPO = os.environ.get("VERIF_REPO", "/repo")
WORK = os.environ.get("MUT_WORK", "/var/tmp/mut")

# file -> (verus units, kani harness regex)
COVER = [
    (r"^src/common/utils\.rs$", "prim,lem3", r"k_len_tables|k_write_var_int|k_be_bytes"),
    (r"^src/common/error\.rs$", "prim", r"k_tbl_error_variants|k_error_conversions"),
    (r"^src/common/types\.rs$", "topic,prim", r"k_pid_|k_filter_|k_topic_name|k_name_prefix|k_tbl_qos|k_protocol_|k_varbytes"),
    (r"^src/common/poll\.rs$", "", r"k_poll_(header|body)_step$"),
    (r"^src/common/mod\.rs$", "topic", r""),
    (r"^src/v3/", "v3,lem3", r"k_tbl_v3|k_header_v3|k_tbl_qos_to"),
    (r"^src/v5/", "v5props,v5pdec,v5acks,v5body,v5pkt", r"k_tbl_(connect|disconnect|auth|puback|pubrec|pubrel|pubcomp|subscribe|unsubscribe)_reason|k_tbl_retain|k_tbl_property|k_header_v5|k_subscription|k_error_conv"),
]

OPS = [
    (r" < ", [" <= ", " > "]), (r" <= ", [" < "]), (r" > ", [" >= ", " < "]), (r" >= ", [" > "]),
    (r" == ", [" != "]), (r" != ", [" == "]),
    (r" \+ ", [" - "]), (r" - ", [" + "]), (r" \+= ", [" -= "]), (r" -= ", [" += "]),
    (r" && ", [" || "]), (r" \|\| ", [" && "]),
    (r" << ", [" >> "]), (r" >> ", [" << "]), (r" \| ", [" & "]), (r" & ", [" | "]),
    (r"\btrue\b", ["false"]), (r"\bfalse\b", ["true"]),
]
LIT = re.compile(r"(?<![\w.])(0x[0-9A-Fa-f_]+|0b[01_]+|\d[\d_]*)(?![\w.])")


def code_lines(path):
    """yield (lineno, text) for lines outside #[cfg(test)] modules, comments and attributes"""
    lines = open(path).read().split("\n")
    skip_depth = None
    depth = 0
    pending_test = False
    for i, ln in enumerate(lines, 1):
        s = ln.strip()
        if s.startswith("#[cfg(test)]"):
            pending_test = True
        opens = ln.count("{") - ln.count("}")
        if pending_test and re.match(r"(pub\s+)?mod\s+\w+", s):
            skip_depth = depth
            pending_test = False
        inside_test = skip_depth is not None
        depth += opens
        if skip_depth is not None and depth <= skip_depth and "}" in ln:
            skip_depth = None
        if inside_test:
            continue
        if not s or s.startswith("//") or s.startswith("#[") or s.startswith("#!") or s.startswith("use ") or s.startswith("///"):
            continue
        if "debug_assert" in s or "unreachable!" in s or "panic!" in s or "expect(" in s and "\"" in s and LIT.search(s) is None:
            pass
        yield i, ln


def gen(seed, per_file, kinds="all"):
    rnd = random.Random(seed)
    out = []
    for dp, dn, fn in os.walk(os.path.join(REPO, "src")):
        if "/tests" in dp:
            continue
        for f in sorted(fn):
            if not f.endswith(".rs") or f == "tests.rs":
                continue
            p = os.path.join(dp, f)
            rel = os.path.relpath(p, REPO)
            cands = []
            for no, ln in code_lines(p):
                code = ln.split("//")[0]
                # never mutate inside string literals
                if '"' in code:
                    q = [m.start() for m in re.finditer('"', code)]
                    spans = list(zip(q[0::2], q[1::2]))
                else:
                    spans = []

                def in_str(pos):
                    return any(a <= pos <= b for a, b in spans)
                for pat, reps in (OPS if kinds != "if" else []):
                    for m in re.finditer(pat, code):
                        if in_str(m.start()):
                            continue
                        for r in reps:
                            cands.append(dict(file=rel, line=no, col=m.start(), old=m.group(0), new=r, kind="op"))
                mi = re.match(r"^(\s*(?:\} else )?if )((?!let\b).+) \{\s*$", code)
                if mi and not in_str(mi.start(2)) and kinds in ("all", "if"):
                    cands.append(dict(file=rel, line=no, col=mi.start(2), old=mi.group(2), new="!(" + mi.group(2) + ")", kind="if-negate"))
                    cands.append(dict(file=rel, line=no, col=mi.start(2), old=mi.group(2), new="false && (" + mi.group(2) + ")", kind="if-false"))
                    cands.append(dict(file=rel, line=no, col=mi.start(2), old=mi.group(2), new="true || (" + mi.group(2) + ")", kind="if-true"))
                if kinds == "if":
                    continue
                for m in LIT.finditer(code):
                    if in_str(m.start()):
                        continue
                    t = m.group(1)
                    # skip type-suffix-free array sizes in types like [u8; 4]? keep: they are behaviour too
                    try:
                        v = int(t.replace("_", ""), 0)
                    except ValueError:
                        continue
                    for nv in (v + 1, v - 1):
                        if nv < 0:
                            continue
                        if t.startswith("0x"):
                            nt = "0x%X" % nv
                        elif t.startswith("0b"):
                            nt = "0b" + bin(nv)[2:].zfill(len(t.replace("_", "")) - 2)
                        else:
                            nt = str(nv)
                        cands.append(dict(file=rel, line=no, col=m.start(1), old=t, new=nt, kind="lit"))
            rnd.shuffle(cands)
            out += cands[:per_file]
    for k, c in enumerate(out):
        c["id"] = "S%d-M%04d" % (seed, k)
    os.makedirs(WORK, exist_ok=True)
    json.dump(out, open(os.path.join(WORK, "mutants.json"), "w"), indent=0)
    print("%d mutants over %d files -> %s/mutants.json" % (len(out), len(set(c["file"] for c in out)), WORK))


def sh(cmd, cwd=None, timeout=1800, env=None):
    """run a shell command in its own process group; on timeout the whole group is killed (a mutant may loop forever)"""
    import signal
    e = dict(os.environ)
    e.update(env or {})
    p = subprocess.Popen(cmd, shell=True, cwd=cwd, env=e, stdout=subprocess.PIPE, stderr=subprocess.STDOUT, text=True, start_new_session=True)
    try:
        out, _ = p.communicate(timeout=timeout)
        return p.returncode, out
    except subprocess.TimeoutExpired:
        try:
            os.killpg(p.pid, signal.SIGKILL)
        except OSError:
            pass
        try:
            out, _ = p.communicate(timeout=10)
        except Exception:
            out = ""
        return 124, out or ""


def cover_for(rel):
    for rx, units, kani in COVER:
        if re.search(rx, rel):
            return units, kani
    return "", ""


def run_one(m, slot):
    d = os.path.join(WORK, "slot%d" % slot)
    repo = os.path.join(d, "repo")
    os.makedirs(d, exist_ok=True)
    sh("rsync -a --delete --exclude target --exclude fuzz --exclude .git %s/ %s/" % (REPO, repo))
    p = os.path.join(repo, m["file"])
    lines = open(p).read().split("\n")
    ln = lines[m["line"] - 1]
    if ln[m["col"]:m["col"] + len(m["old"])] != m["old"]:
        return dict(m, status="stale")
    lines[m["line"] - 1] = ln[:m["col"]] + m["new"] + ln[m["col"] + len(m["old"]):]
    open(p, "w").write("\n".join(lines))
    env = dict(CARGO_TARGET_DIR=os.path.join(d, "target"), CARGO_NET_OFFLINE="true")
    rc, out = sh("cargo test --workspace --no-fail-fast --offline 2>&1 | tail -n 30", cwd=repo, timeout=600, env=env)
    res = dict(m)
    res["diff"] = "-%s\n+%s" % (ln.strip(), lines[m["line"] - 1].strip())
    if "error[" in out or "error:" in out and "could not compile" in out:
        res["status"] = "no-build"
        return res
    mm = re.findall(r"test result: (\w+)\. (\d+) passed; (\d+) failed", out)
    if not mm:
        res["status"] = "no-build"
        res["out"] = out[-400:]
        return res
    if any(int(f) > 0 for _, _, f in mm):
        res["status"] = "killed-by-tests"
        return res
    units, kani = cover_for(m["file"])
    if not units and not kani:
        res["status"] = "survivor-no-cover"
        return res
    rc, out = sh("%s/vcheck 'MUT:%s|%s' quick 2>&1 | grep -a '^VIOLATION\\|^UNDECIDED\\|^KNOWN\\|obligations discharged' | cut -c1-400" % (ROOT, units, kani or "^$"),
                 timeout=2400, env=dict(VERIF_REPO=repo, VERIF_EVIDENCE_DIR=os.path.join(d, "ev"), VERIF_PLAYBACKS="0"))
    lines_ = [x for x in out.split("\n") if x.strip()]
    viol = [x for x in lines_ if x.startswith("VIOLATION")]
    und = [x for x in lines_ if x.startswith("UNDECIDED")]
    res["lines"] = (viol[:4] + und[:3])
    res["status"] = "caught" if viol else ("undecided" if und else "missed")
    return res


def run(jobs, only):
    ms = json.load(open(os.path.join(WORK, "mutants.json")))
    if only:
        ms = [m for m in ms if re.search(only, m["file"]) or re.search(only, m["id"])]
    done = set()
    same = set()
    rp = os.path.join(WORK, "results.jsonl")
    if os.path.exists(rp):
        for ln in open(rp):
            try:
                r = json.loads(ln)
                done.add(r["id"])
                same.add((r["file"], r["line"], r["col"], r["new"]))
            except Exception:
                pass
    todo = [m for m in ms if m["id"] not in done and (m["file"], m["line"], m["col"], m["new"]) not in same]
    print("%d to run (%d done)" % (len(todo), len(done)))
    import queue
    slots = queue.Queue()
    for k in range(jobs):
        slots.put(k)

    def work(m):
        s = slots.get()
        try:
            r = run_one(m, s)
        except Exception as e:   # noqa
            r = dict(m, status="error", err=str(e)[:300])
        finally:
            slots.put(s)
        with open(rp, "a") as f:
            f.write(json.dumps(r) + "\n")
        print(r["id"], r["file"], r["line"], r.get("status"), flush=True)
        return r
    with cf.ThreadPoolExecutor(max_workers=jobs) as ex:
        list(ex.map(work, todo))
    for k in range(jobs):
        shutil.rmtree(os.path.join(WORK, "slot%d" % k), ignore_errors=True)


# analysis of the survivors the checks did not report (by file, line, replacement): why each is an equivalent mutant
NOTES = {
    ("src/common/utils.rs", 160, " <= "): "equivalent on valid totals: 16387 is not a total length of any packet (16386 = 3+16383, 16388 = 4+16384); header_len's contract quantifies over valid totals only, as its doc comment requires",
    ("src/common/utils.rs", 162, " <= "): "equivalent on valid totals: 2097156 is not a total length of any packet",
    ("src/v3/publish.rs", 37, "true"): "Publish::new constructor default (dup), not on any decode/encode path of a property",
    ("src/v3/publish.rs", 38, "true"): "Publish::new constructor default (retain), not on any decode/encode path of a property",
    ("src/v3/publish.rs", 69, " >= "): "equivalent: remaining_len is usize, a zero-length read_exact yields the same empty payload",
    ("src/common/utils.rs", 162, "2097153"): "equivalent on valid totals: 2097156 is not a total length of any packet",
    ("src/common/utils.rs", 158, "3"): "equivalent on valid totals: 130 is not a total length of any packet (129 = 2+127, 131 = 3+128)",
    ("src/common/utils.rs", 160, "16385"): "equivalent on valid totals: 16387 is not a total length of any packet",
    ("src/common/utils.rs", 162, "5"): "equivalent on valid totals: 2097156 is not a total length of any packet",
    ("src/v3/connect.rs", 228, "true"): "LastWill::new constructor default (retain), not on any decode/encode path of a property",
    ("src/v3/packet.rs", 269, "0b111"): "equivalent: bit 0 is shifted out by `>> 1`",
    ("src/common/types.rs", 348, "1"): "dead code (see the row above for the same line)",
    ("src/common/types.rs", 347, "false && (has_one && Some(char_idx) != last_sep.map(|v| v + 2) && char_idx != 1)"): "dead condition (see src/common/types.rs:348)",
    ("src/common/types.rs", 357, "false && (has_one)"): "equivalent: with has_one set the '#' is at last_sep+2, so the following `else if Some(char_idx) == last_sep+1 || char_idx == 0` is false and the final `else` returns invalid as well",
    ("src/common/types.rs", 371, "false && (has_one)"): "equivalent: a second '+' directly after a level-starting '+' sits at last_sep+2, so the following `else if .. last_sep+1 || char_idx == 0` is false and the final `else` returns invalid as well",
    ("src/common/types.rs", 392, "1"): "equivalent: shared_group_sep is either 0 or 6 (debug_assert in the function; proved invariant tf_inv)",
    ("src/common/types.rs", 348, "false"): "dead code: has_one is only set by a '+' that starts a level and every character other than '/' after it returns earlier, so the guarded condition is never true (Verus proves the mutant as well)",
}


def table():
    rs = [json.loads(x) for x in open(os.path.join(WORK, "results.jsonl"))]
    cnt = {}
    for r in rs:
        cnt[r["status"]] = cnt.get(r["status"], 0) + 1
    out = ["# Mutation self-test (tools/mutate.py)", "",
           "Token-level mutants of /repo/src (relational / arithmetic / logical / bit operator swaps, integer literals +-1, true<->false; round 3: `if C` -> `if !(C)`, `if false && (C)`, `if true || (C)`), sampled per file (seeds 1-3; seed 4: up to 160 candidates per file in poll.rs, types.rs and the two packet.rs files).",
           "Only mutants that build and pass the pinned 73-test suite (`survivors`) are run against the checks that cover their file.", "",
           "| outcome | count |", "|---|---|"]
    for k in sorted(cnt):
        out.append("| %s | %d |" % (k, cnt[k]))
    out += ["", "## Survivors", "", "| id | file:line | change | outcome | first line |", "|---|---|---|---|---|"]
    for r in rs:
        if r["status"] in ("caught", "undecided", "missed", "survivor-no-cover"):
            first = (r.get("lines") or [""])[0][:160].replace("|", "\\|")
            note = NOTES.get((r["file"], r["line"], r["new"]))
            if note and r["status"] == "missed":
                first = "equivalent mutant: " + note
            out.append("| %s | %s:%d | `%s` | %s | %s |" % (r["id"], r["file"], r["line"], r.get("diff", "").replace("\n", " ⏎ ").replace("|", "\\|")[:150], r["status"], first))
    open(os.path.join(ROOT, "seeded", "MUTATION.md"), "w").write("\n".join(out) + "\n")
    print("\n".join(out[:14]))


if __name__ == "__main__":
    a = sys.argv[1:]
    cmd = a[0] if a else "help"

    def opt(name, default):
        return a[a.index(name) + 1] if name in a else default
    if cmd == "gen":
        gen(int(opt("--seed", "1")), int(opt("--per-file", "20")), opt("--kinds", "all"))
    elif cmd == "run":
        run(int(opt("--jobs", "3")), opt("--only", None))
    elif cmd == "table":
        table()
    else:
        print(__doc__)
