#!/bin/bash
# confirm_seed.sh <prop> <variant>  : verify a sub-agent's mutant in its scratch worktree, then store under /verif/seeded/
set -u
P=$1; X=$2
WT=/tmp/seed/wt-$P
OUT=/tmp/seed/out/$P
cd $WT || exit 2
git checkout -q -- src
mkdir -p tests; cp $OUT/$X.demo.rs tests/seed_demo_$X.rs
base=$(cargo test --offline --test seed_demo_$X 2>&1 | grep "test result" | head -1)
git apply $OUT/$X.patch.diff || { echo "$P-$X: patch does not apply"; exit 1; }
suite=$(cargo test --offline --lib 2>&1 | grep "test result" | head -1)
demo=$(cargo test --offline --test seed_demo_$X 2>&1 | grep "test result" | head -1)
git checkout -q -- src
echo "$P-$X base-demo: $base | suite-with-patch: $suite | demo-with-patch: $demo"
case "$base" in *"0 failed"*) ;; *) echo "$P-$X REJECT demo fails on unchanged code"; exit 1;; esac
case "$suite" in *"73 passed; 0 failed"*) ;; *) echo "$P-$X REJECT suite"; exit 1;; esac
case "$demo" in *"0 failed"*) echo "$P-$X REJECT demo passes with patch"; exit 1;; esac
D=/verif/seeded/$P-$X
mkdir -p $D
cp $OUT/$X.patch.diff $D/patch.diff
cp $OUT/$X.demo.rs $D/demo.rs
python3 - "$OUT/$X.meta.json" "$D/meta.json" "$base" "$suite" "$demo" <<'PY'
import json,sys
m=json.load(open(sys.argv[1]))
m['confirmed_by_me']={'worktree':'scratch git worktree of /repo at the fix: commits head','demo_on_unchanged_code':sys.argv[3],'suite_with_patch':sys.argv[4],'demo_with_patch':sys.argv[5],
  'commands':['git apply patch.diff','cargo test --offline --lib','cargo test --offline --test seed_demo_X','git checkout -- src']}
json.dump(m,open(sys.argv[2],'w'),indent=1)
PY
echo "$P-$X CONFIRMED"
