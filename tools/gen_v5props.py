#!/usr/bin/env python3
"""Generate contracts/v5props.vc: templated contracts for the 14 MQTT 5.0 property sets.

The tables below are typed from the MQTT 5.0 specification (Table 2-4 "Properties": identifier, data type,
and which packets may carry it), NOT read from src/v5/types.rs.  Field names are the crate's struct fields.
Run by hand when the table changes; the output is committed.
"""
import sys

# property name -> (identifier, wire type, struct field)
PROPS = {
    "PayloadFormatIndicator": (0x01, "bool", "payload_is_utf8"),
    "MessageExpiryInterval": (0x02, "u32", "message_expiry_interval"),
    "ContentType": (0x03, "str", "content_type"),
    "ResponseTopic": (0x08, "topic", "response_topic"),
    "CorrelationData": (0x09, "bin", "correlation_data"),
    "SubscriptionIdentifier": (0x0B, "varint", "subscription_id"),
    "SessionExpiryInterval": (0x11, "u32", "session_expiry_interval"),
    "AssignedClientIdentifier": (0x12, "str", "assigned_client_id"),
    "ServerKeepAlive": (0x13, "u16", "server_keep_alive"),
    "AuthenticationMethod": (0x15, "str", "auth_method"),
    "AuthenticationData": (0x16, "bin", "auth_data"),
    "RequestProblemInformation": (0x17, "bool", "request_problem_info"),
    "WillDelayInterval": (0x18, "u32", "delay_interval"),
    "RequestResponseInformation": (0x19, "bool", "request_response_info"),
    "ResponseInformation": (0x1A, "str", "response_info"),
    "ServerReference": (0x1C, "str", "server_reference"),
    "ReasonString": (0x1F, "str", "reason_string"),
    "ReceiveMaximum": (0x21, "u16", "receive_max"),
    "TopicAliasMaximum": (0x22, "u16", "topic_alias_max"),
    "TopicAlias": (0x23, "u16", "topic_alias"),
    "MaximumQoS": (0x24, "qos", "max_qos"),
    "RetainAvailable": (0x25, "bool", "retain_available"),
    "MaximumPacketSize": (0x27, "u32", "max_packet_size"),
    "WildcardSubscriptionAvailable": (0x28, "bool", "wildcard_subscription_available"),
    "SubscriptionIdentifierAvailable": (0x29, "bool", "subscription_id_available"),
    "SharedSubscriptionAvailable": (0x2A, "bool", "shared_subscription_available"),
}

# struct -> (module, [properties in the order the set is written], is_will)
SETS = [
    ("ConnectProperties", "v5::connect", ["SessionExpiryInterval", "ReceiveMaximum", "MaximumPacketSize", "TopicAliasMaximum",
                                          "RequestResponseInformation", "RequestProblemInformation", "AuthenticationMethod", "AuthenticationData"], False),
    ("WillProperties", "v5::connect", ["WillDelayInterval", "PayloadFormatIndicator", "MessageExpiryInterval", "ContentType", "ResponseTopic", "CorrelationData"], True),
    ("ConnackProperties", "v5::connect", ["SessionExpiryInterval", "ReceiveMaximum", "MaximumQoS", "RetainAvailable", "MaximumPacketSize",
                                          "AssignedClientIdentifier", "TopicAliasMaximum", "ReasonString", "WildcardSubscriptionAvailable",
                                          "SubscriptionIdentifierAvailable", "SharedSubscriptionAvailable", "ServerKeepAlive", "ResponseInformation",
                                          "ServerReference", "AuthenticationMethod", "AuthenticationData"], False),
    ("DisconnectProperties", "v5::connect", ["SessionExpiryInterval", "ReasonString", "ServerReference"], False),
    ("AuthProperties", "v5::connect", ["AuthenticationMethod", "AuthenticationData", "ReasonString"], False),
    ("PublishProperties", "v5::publish", ["PayloadFormatIndicator", "MessageExpiryInterval", "TopicAlias", "ResponseTopic", "CorrelationData",
                                          "SubscriptionIdentifier", "ContentType"], False),
    ("PubackProperties", "v5::publish", ["ReasonString"], False),
    ("PubrecProperties", "v5::publish", ["ReasonString"], False),
    ("PubrelProperties", "v5::publish", ["ReasonString"], False),
    ("PubcompProperties", "v5::publish", ["ReasonString"], False),
    ("SubscribeProperties", "v5::subscribe", ["SubscriptionIdentifier"], False),
    ("SubackProperties", "v5::subscribe", ["ReasonString"], False),
    ("UnsubscribeProperties", "v5::subscribe", [], False),
    ("UnsubackProperties", "v5::subscribe", ["ReasonString"], False),
]

OKFN = {"str": "str_ok", "topic": "topic_ok", "bin": "bin_ok", "varint": "varint_ok"}


def enc_term(p):
    pid, ty, f = PROPS[p]
    return "prop_%s(0x%02Xu8, p.%s)" % (ty, pid, f)


def len_anchor(p):
    pid, ty, f = PROPS[p]
    if ty in ("str", "topic", "bin"):
        return 1, "if let Some ( value ) = self . %s . as_ref ( ) {" % f
    if ty == "varint":
        return 1, "if let Some ( value ) = self . %s {" % f
    return 1, "if self . %s . is_some ( ) {" % f


def write_anchor(p):
    pid, ty, f = PROPS[p]
    if ty in ("str", "topic", "bin"):
        return 2, "if let Some ( value ) = self . %s . as_ref ( ) {" % f
    if ty == "varint":
        return 2, "if let Some ( value ) = self . %s {" % f
    return 1, "if let Some ( value ) = self . %s {" % f


def gen():
    out = []
    w = out.append
    w("## GENERATED by tools/gen_v5props.py from the MQTT 5.0 property table - do not edit by hand")
    w("## Contracts for the 14 v5 property sets: Encodable::{encode, encode_len} and decode_async")
    w("")
    for name, mod, props, is_will in SETS:
        w("@type %s::%s #[derive(PartialEq, Eq, Default)]" % (mod, name))
        w("@derived %s::%s PartialEq Default" % (mod, name))
    w("")
    w("@spec")
    for name, mod, props, is_will in SETS:
        terms = [enc_term(p) for p in props]
        fields = " + ".join(terms) if terms else "Seq::<u8>::empty()"
        w("// ---- %s" % name)
        w("pub open spec fn enc_%s_upto_0(p: %s) -> Seq<u8> { Seq::<u8>::empty() }" % (name, name))
        for k, t in enumerate(terms, 1):
            w("#[verifier::opaque]")
            w("pub open spec fn enc_%s_upto_%d(p: %s) -> Seq<u8> { enc_%s_upto_%d(p) + %s }" % (name, k, name, name, k - 1, t))
        w("pub open spec fn enc_%s_fields(p: %s) -> Seq<u8> { enc_%s_upto_%d(p) }" % (name, name, name, len(terms)))
        w("pub open spec fn acc_%s_0(acc: Seq<u8>, p: %s) -> Seq<u8> { acc }" % (name, name))
        for k, q in enumerate(props, 1):
            pid, ty, f = PROPS[q]
            w("#[verifier::opaque]")
            w("pub open spec fn acc_%s_%d(acc: Seq<u8>, p: %s) -> Seq<u8> { put_%s(acc_%s_%d(acc, p), 0x%02Xu8, p.%s) }" % (name, k, name, ty, name, k - 1, pid, f))
        w("pub proof fn lemma_upto_mono_%s(p: %s)" % (name, name))
        w("    ensures " + ", ".join(["enc_%s_upto_%d(p).len() <= enc_%s_fields(p).len()" % (name, k, name) for k in range(0, len(props) + 1)]) + ", enc_%s_body(p).len() == enc_%s_fields(p).len() + enc_ups(p.user_properties@).len()" % (name, name))
        w("{ reveal(enc_%s_body); %s }" % (name, " ".join("reveal(enc_%s_upto_%d);" % (name, kk) for kk in range(1, len(props) + 1))))
        w("pub proof fn lemma_upsok_%s(p: %s)" % (name, name))
        w("    requires %s_fields_ok(p)" % name)
        w("    ensures ups_ok(p.user_properties@)")
        w("{ reveal(%s_fields_ok); }" % name)
        w("pub proof fn lemma_body_len_%s(p: %s)" % (name, name))
        w("    ensures enc_%s_body(p).len() == enc_%s_fields(p).len() + p.user_properties@.len() + ups_sum4(p.user_properties@)" % (name, name))
        w("{ reveal(enc_%s_body); lemma_ups_len(p.user_properties@); }" % name)
        w("#[verifier::rlimit(1200)]")
        w("#[verifier::spinoff_prover]")
        w("pub proof fn lemma_acc_%s(acc: Seq<u8>, p: %s)" % (name, name))
        w("    ensures acc_%s_%d(acc, p) =~= acc + enc_%s_fields(p)" % (name, len(props), name))
        w("{")
        for k, q in enumerate(props, 1):
            pid, ty, f = PROPS[q]
            w("    reveal(acc_%s_%d); reveal(enc_%s_upto_%d);" % (name, k, name, k))
            w("    lemma_put(acc_%s_%d(acc, p), 0x%02Xu8);" % (name, k - 1, pid))
            w("    assert(acc_%s_%d(acc, p) =~= acc + enc_%s_upto_%d(p));" % (name, k, name, k))
        w("}")
        # per-step lemmas; the step facts themselves are *named* assertions in the function bodies (`#len-k`, `#wr-k`)
        for k, q in enumerate(props, 1):
            pid, ty, f = PROPS[q]
            plen = {"bool": "(if p.%s is Some { 2nat } else { 0nat })", "qos": "(if p.%s is Some { 2nat } else { 0nat })", "u16": "(if p.%s is Some { 3nat } else { 0nat })",
                    "u32": "(if p.%s is Some { 5nat } else { 0nat })", "str": "(match p.%s { Some(v) => 3 + sbytes(v@).len(), None => 0nat })",
                    "topic": "(match p.%s { Some(v) => 3 + sbytes(v.text()).len(), None => 0nat })", "bin": "(match p.%s { Some(v) => 3 + v@.len(), None => 0nat })",
                    "varint": "(match p.%s { Some(v) => 1 + vlen(v.0 as nat), None => 0nat })"}[ty] % f
            w("#[verifier::opaque]")
            w("pub open spec fn %s_plen_%d(p: %s) -> nat { %s }" % (name, k, name, plen))
            okf = "%s(p.%s)" % (OKFN[ty], f) if ty in OKFN else "true"
            w("pub proof fn lemma_%s_pbound_%d(p: %s)" % (name, k, name))
            w("    requires %s_fields_ok(p)" % name)
            w("    ensures %s_plen_%d(p) <= 65538, %s" % (name, k, okf))
            w("{ reveal(%s_fields_ok); reveal(%s_plen_%d); }" % (name, name, k))
            w("pub proof fn lemma_%s_lstep_%d(p: %s, b: nat, l0: nat, l1: nat)" % (name, k, name))
            w("    requires %s_fields_ok(p), l0 == b + enc_%s_upto_%d(p).len(), l1 == l0 + %s_plen_%d(p)" % (name, name, k - 1, name, k))
            w("    ensures l1 == b + enc_%s_upto_%d(p).len(), l1 <= b + enc_%s_fields(p).len()" % (name, k, name))
            vl = " if let Some(v) = p.%s { lemma_vlen_enc(v.0 as nat); }" % f if ty == "varint" else ""
            w("{ reveal(enc_%s_upto_%d); reveal(%s_fields_ok); reveal(%s_plen_%d); lemma_upto_mono_%s(p);%s }" % (name, k, name, name, k, name, vl))
            w("pub proof fn lemma_%s_wstep_%d(w1: Seq<u8>, p: %s, wprev: Seq<u8>, wnow: Seq<u8>)" % (name, k, name))
            w("    requires wprev == acc_%s_%d(w1, p), wnow == put_%s(wprev, 0x%02Xu8, p.%s)" % (name, k - 1, ty, pid, f))
            w("    ensures wnow == acc_%s_%d(w1, p)" % (name, k))
            w("{ reveal(acc_%s_%d); }" % (name, k))
        w("#[verifier::opaque]")
        w("pub open spec fn enc_%s_body(p: %s) -> Seq<u8> { enc_%s_fields(p) + enc_ups(p.user_properties@) }" % (name, name, name))
        allf = [PROPS[q][2] for q in props]
        # trusted specs of the derived impls (A11; `@derived` checks the real type still derives them)
        eqs = " && ".join(["self.%s == other.%s" % (f, f) for f in allf] + ["self.user_properties@ =~= other.user_properties@"])
        w("impl vstd::std_specs::cmp::PartialEqSpecImpl for %s { open spec fn obeys_eq_spec() -> bool { true }" % name)
        w("    open spec fn eq_spec(&self, other: &%s) -> bool { %s } }" % (name, eqs))
        nones = " && ".join(["p.%s is None" % f for f in allf] + ["p.user_properties@.len() == 0"])
        w("pub open spec fn %s_empty(p: %s) -> bool { %s }" % (name, name, nones))
        emptyv = ", ".join(["%s: None" % f for f in allf] + ["user_properties: mk_vec(Seq::<UserProperty>::empty())"])
        w("pub open spec fn empty_%s() -> %s { %s { %s } }" % (name, name, name, emptyv))
        w("pub assume_specification [<%s as Default>::default]() -> (r: %s) ensures %s_empty(r), r == empty_%s();" % (name, name, name, name))
        oks = ["%s(p.%s)" % (OKFN[PROPS[q][1]], PROPS[q][2]) for q in props if PROPS[q][1] in OKFN]
        oks.append("ups_ok(p.user_properties@)")
        w("#[verifier::opaque]")
        w("pub open spec fn %s_fields_ok(p: %s) -> bool { %s }" % (name, name, " && ".join(oks)))
        w("pub open spec fn %s_ok(p: %s) -> bool { %s_fields_ok(p) && enc_%s_body(p).len() < 268435456 }" % (name, name, name, name))
    w("@endspec")
    w("")
    enc_out = out
    out = []
    w = out.append
    w("## GENERATED by tools/gen_v5props.py from the MQTT 5.0 property table - do not edit by hand")
    w("## Decoders of the 14 v5 property sets (types and encoder specs are in v5props.vc)")
    w("")
    w("@spec")
    # ---- decoder specs (accumulator-style loop; the `len` bookkeeping is the crate's: bytes of the *minimal* encoding)
    for name, mod, props, is_will in SETS:
        w("#[verifier::opaque]")
        w("pub open spec fn p5_%s_loop(s: Seq<u8>, plen: nat, len: nat, acc: %s, used: nat, pt: PacketType) -> PR<%s, ErrorV5>" % (name, name, name))
        w("    decreases (if plen > len { (plen - len) as nat } else { 0nat })")
        w("{")
        w("    if plen <= len { if plen != len { PR::Err(ErrorV5::InvalidPropertyLength(plen as u32)) } else { PR::Ok(acc, used) } }")
        w("    else if s.len() == 0 { PR::Inc }")
        w("    else { match property_id_of(s[0]) {")
        w("        Err(e) => PR::Err(e),")
        w("        Ok(id) =>")
        first = True
        for q in props:
            pid, ty, f = PROPS[q]
            kw = "if" if first else "else if"
            first = False
            lenexpr = "len + 1 + vlen(v.0 as nat)" if ty == "varint" else "len + 1 + n"
            w("            %s id == PropertyId::%s { match step_%s(s.skip(1), id, acc.%s) { PR::Inc => PR::Inc, PR::Err(e) => PR::Err(e)," % (kw, q, ty, f))
            w("                PR::Ok(v, n) => p5_%s_loop(s.skip(1 + n as int), plen, %s, %s { %s: Some(v), ..acc }, used + 1 + n, pt) } }" % (name, lenexpr, name, f))
        kw = "if" if first else "else if"
        w("            %s id == PropertyId::UserProperty { match step_up(s.skip(1)) { PR::Inc => PR::Inc, PR::Err(e) => PR::Err(e)," % kw)
        w("                PR::Ok(v, n) => p5_%s_loop(s.skip(1 + n as int), plen, len + 1 + n, %s { user_properties: mk_vec(acc.user_properties@.push(v)), ..acc }, used + 1 + n, pt) } }" % (name, name))
        if is_will:
            w("            else { PR::Err(ErrorV5::InvalidWillProperty(id)) },")
        else:
            w("            else { PR::Err(ErrorV5::InvalidProperty(pt, id)) },")
        w("    } }")
        w("}")
        # unfolding lemmas: one for the loop head / exit / disallowed ids, one per allowed property (each a small query)
        allowed = " || ".join(["id == PropertyId::%s" % q for q in props] + ["id == PropertyId::UserProperty"])
        bad = "ErrorV5::InvalidWillProperty(id)" if is_will else "ErrorV5::InvalidProperty(pt, id)"
        w("pub proof fn lemma_%s_head(s: Seq<u8>, plen: nat, len: nat, acc: %s, used: nat, pt: PacketType)" % (name, name))
        w("    ensures")
        w("        plen <= len ==> p5_%s_loop(s, plen, len, acc, used, pt) == (if plen != len { PR::<%s, ErrorV5>::Err(ErrorV5::InvalidPropertyLength(plen as u32)) } else { PR::<%s, ErrorV5>::Ok(acc, used) })," % (name, name, name))
        w("        plen > len && s.len() == 0 ==> p5_%s_loop(s, plen, len, acc, used, pt) == PR::<%s, ErrorV5>::Inc," % (name, name))
        w("        plen > len && s.len() > 0 ==> (match property_id_of(s[0]) {")
        w("            Err(e) => p5_%s_loop(s, plen, len, acc, used, pt) == PR::<%s, ErrorV5>::Err(e)," % (name, name))
        w("            Ok(id) => !(%s) ==> p5_%s_loop(s, plen, len, acc, used, pt) == PR::<%s, ErrorV5>::Err(%s) })," % (allowed, name, name, bad))
        w("{ reveal(p5_%s_loop); }" % name)
        for q in props + ["UserProperty"]:
            if q == "UserProperty":
                stepc = "step_up(s.skip(1))"
                upd = "%s { user_properties: mk_vec(acc.user_properties@.push(v)), ..acc }" % name
                lenexpr = "len + 1 + n"
            else:
                pid, ty, f = PROPS[q]
                stepc = "step_%s(s.skip(1), PropertyId::%s, acc.%s)" % (ty, q, f)
                upd = "%s { %s: Some(v), ..acc }" % (name, f)
                lenexpr = "len + 1 + vlen(v.0 as nat)" if ty == "varint" else "len + 1 + n"
            w("pub proof fn lemma_%s_arm_%s(s: Seq<u8>, plen: nat, len: nat, acc: %s, used: nat, pt: PacketType)" % (name, q, name))
            w("    requires plen > len, s.len() > 0, property_id_of(s[0]) == Ok::<PropertyId, ErrorV5>(PropertyId::%s)" % q)
            w("    ensures p5_%s_loop(s, plen, len, acc, used, pt) == (match %s { PR::Inc => PR::<%s, ErrorV5>::Inc, PR::Err(e) => PR::<%s, ErrorV5>::Err(e)," % (name, stepc, name, name))
            w("        PR::Ok(v, n) => p5_%s_loop(s.skip(1 + n as int), plen, %s, %s, used + 1 + n, pt) })" % (name, lenexpr, upd))
            w("{ reveal(p5_%s_loop); }" % name)
        allfields = [PROPS[qq][2] for qq in props]
        for q in props:
            pid, ty, f = PROPS[q]
            okc = {"str": "sbytes(nw.%s->Some_0@).len() <= 65535", "topic": "sbytes(nw.%s->Some_0.text()).len() <= 65535", "bin": "nw.%s->Some_0@.len() <= 65535", "varint": "nw.%s->Some_0.0 < 268435456"}.get(ty, "true")
            okc = okc % f if "%s" in okc else okc
            same = " && ".join(["nw.%s == old.%s" % (g, g) for g in allfields if g != f] + ["nw.user_properties == old.user_properties"])
            w("pub proof fn lemma_%s_len_%s(old: %s, nw: %s)" % (name, q, name, name))
            w("    requires old.%s is None, nw.%s is Some, %s" % (f, f, same))
            w("    ensures enc_%s_body(nw).len() == enc_%s_body(old).len() + prop_%s(0x%02Xu8, nw.%s).len()," % (name, name, ty, pid, f))
            w("            %s_fields_ok(old) && %s ==> %s_fields_ok(nw)" % (name, okc, name))
            w("{ reveal(%s_fields_ok); reveal(enc_%s_body); %s }" % (name, name, " ".join("reveal(enc_%s_upto_%d);" % (name, kk) for kk in range(1, len(props) + 1))))
        same = " && ".join(["nw.%s == old.%s" % (g, g) for g in allfields] + ["nw.user_properties@ == old.user_properties@.push(v)"])
        w("pub proof fn lemma_%s_len_UserProperty(old: %s, nw: %s, v: UserProperty)" % (name, name, name))
        w("    requires %s" % same)
        w("    ensures enc_%s_body(nw).len() == enc_%s_body(old).len() + enc_up(v).len()," % (name, name))
        w("            %s_fields_ok(old) && sbytes(v.name@).len() <= 65535 && sbytes(v.value@).len() <= 65535 ==> %s_fields_ok(nw)" % (name, name))
        w("{ reveal(%s_fields_ok); reveal(enc_%s_body); %s assert(nw.user_properties@.drop_last() =~= old.user_properties@); }" % (name, name, " ".join("reveal(enc_%s_upto_%d);" % (name, kk) for kk in range(1, len(props) + 1))))
        RTY = {"bool": "bool", "qos": "QoS", "u16": "u16", "u32": "u32", "str": "Arc<String>", "topic": "TopicName", "bin": "Bytes", "varint": "VarByteInt"}
        for q in props + ["UserProperty"]:
            if q == "UserProperty":
                stepc = "step_up(s.skip(1))"
                rty = "UserProperty"
                same = " && ".join(["nw.%s == acc.%s" % (g, g) for g in allfields] + ["nw.user_properties@ == acc.user_properties@.push(v)"])
                extra = "n == 4 + sbytes(v.name@).len() + sbytes(v.value@).len() && sbytes(v.name@).len() <= 65535 && sbytes(v.value@).len() <= 65535"
                lenexpr = "len + 1 + n"
                lencall = "lemma_%s_len_UserProperty(acc, nw, v);" % name
                eqs = "assert(nw.user_properties == mk_vec(acc.user_properties@.push(v))) by { broadcast use group_ext; }"
                upd = "%s { user_properties: mk_vec(acc.user_properties@.push(v)), ..acc }" % name
            else:
                pid, ty, f = PROPS[q]
                stepc = "step_%s(s.skip(1), PropertyId::%s, acc.%s)" % (ty, q, f)
                rty = RTY[ty]
                same = " && ".join(["nw.%s == Some(v)" % f] + ["nw.%s == acc.%s" % (g, g) for g in allfields if g != f] + ["nw.user_properties == acc.user_properties"])
                extra = {"str": "n == 2 + sbytes(v@).len() && sbytes(v@).len() <= 65535", "topic": "n == 2 + sbytes(v.text()).len() && sbytes(v.text()).len() <= 65535",
                         "bin": "n == 2 + v@.len() && v@.len() <= 65535", "varint": "v.0 < 268435456"}.get(ty, "true")
                lenexpr = "len + 1 + vlen(v.0 as nat)" if ty == "varint" else "len + 1 + n"
                lencall = "lemma_%s_len_%s(acc, nw);%s" % (name, q, " lemma_vlen_enc(v.0 as nat);" if ty == "varint" else "")
                eqs = ""
                upd = "%s { %s: Some(v), ..acc }" % (name, f)
            w("pub proof fn lemma_%s_done_%s(s0: Seq<u8>, s: Seq<u8>, plen: nat, len: nat, acc: %s, used: nat, pt: PacketType, nw: %s, v: %s, n: nat, len2: nat)" % (name, q, name, name, rty))
            pre = ("plen > len && s.len() > 0 && property_id_of(s[0]) == Ok::<PropertyId, ErrorV5>(PropertyId::%s) && used <= s0.len() && s == s0.skip(used as int)" % q
                   + " && %s == PR::<%s, ErrorV5>::Ok(v, n) && 1 + n <= s.len()" % (stepc, rty)
                   + " && %s_fields_ok(acc) && len == enc_%s_body(acc).len()" % (name, name)
                   + " && %s && len2 == %s && %s" % (same, lenexpr, extra))
            # the facts the arm must establish are an antecedent, not a `requires`: if the code stops establishing them the loop invariant (a named obligation) fails, not a proof hint
            w("    ensures (%s) ==>" % pre)
            w("        p5_%s_loop(s, plen, len, acc, used, pt) == p5_%s_loop(s0.skip((used + 1 + n) as int), plen, len2, nw, used + 1 + n, pt)" % (name, name))
            w("        && s.skip(1).skip(n as int) == s0.skip((used + 1 + n) as int)")
            w("        && %s_fields_ok(nw) && len2 == enc_%s_body(nw).len()" % (name, name))
            w("{")
            w("  if %s {" % pre)
            w("    lemma_%s_arm_%s(s, plen, len, acc, used, pt);" % (name, q))
            w("    %s" % lencall)
            w("    assert(s.skip(1).skip(n as int) =~= s0.skip((used + 1 + n) as int));")
            w("    assert(s.skip(1 + n as int) =~= s0.skip((used + 1 + n) as int));")
            if eqs:
                w("    %s" % eqs)
            w("    assert(nw == %s);" % upd)
            w("  }")
            w("}")
        w("pub proof fn lemma_%s_len_empty()" % name)
        w("    ensures enc_%s_body(empty_%s()).len() == 0, %s_fields_ok(empty_%s())" % (name, name, name, name))
        w("{ reveal(%s_fields_ok); reveal(enc_%s_body); %s broadcast use group_ext; }" % (name, name, " ".join("reveal(enc_%s_upto_%d);" % (name, kk) for kk in range(1, len(props) + 1))))
        w("pub open spec fn p5_%s(s: Seq<u8>, pt: PacketType) -> PR<%s, ErrorV5> {" % (name, name))
        w("    match p_varint(s) { PR::Inc => PR::Inc, PR::Err(e) => PR::Err(ErrorV5::Common(e)),")
        w("        PR::Ok(plen, n0) => p5_%s_loop(s.skip(n0 as int), plen as nat, 0, empty_%s(), n0, pt) }" % (name, name))
        w("}")
    w("@endspec")
    w("")
    for name, mod, props, is_will in SETS:
        # ---------------- decode_async
        w("@fn %s::{%s}::decode_async" % (mod, name))
        w("@props C01 C03 C04 C06 C07 C08 C11 C12 C14 C20")
        w("@attr #[verifier::rlimit(1200)]")
        w("@attr #[verifier::spinoff_prover]")
        w("@ensures")
        pt = "PacketType::Connect" if is_will else "packet_type"
        w("  #refines: rd_post5(p5_%s(old(reader).stream(), %s), r, *old(reader), *final(reader))" % (name, pt))
        w("  #valid: r matches Ok(v) ==> v.valid() && (p_varint(old(reader).stream()) matches PR::Ok(plen, _n0) && enc_%s_body(v).len() == plen)" % name)
        w("@entry")
        w("  let ghost s0 = reader.stream();")
        w("@before `let mut len = 0 ;`")
        w("  let ghost mut used: nat = _bytes as nat;")
        w("  proof { assert(properties.user_properties@ =~= Seq::<UserProperty>::empty()); assert(properties == empty_%s()); lemma_%s_len_empty(); }" % (name, name))
        w("@loop 1")
        w("  @invariant")
        w("    #frame: reader.end_kind() == old(reader).end_kind() && s0 == old(reader).stream() && used <= s0.len() && reader.stream() == s0.skip(used as int) && p_varint(s0) == PR::<u32, Error>::Ok(property_len, _bytes as nat)")
        w("    #refines: p5_%s(s0, %s) == p5_%s_loop(reader.stream(), property_len as nat, len as nat, properties, used, %s)" % (name, pt, name, pt))
        w("    #acct: %s_fields_ok(properties) && len as nat == enc_%s_body(properties).len() && property_len < 268435456" % (name, name))
        w("  @decreases (if property_len as usize > len { property_len as usize - len } else { 0 })")
        w("  @top")
        w("    let ghost sc = reader.stream();")
        w("    let ghost p0 = properties;")
        w("    let ghost len0 = len as nat;")
        w("    proof { lemma_%s_head(sc, property_len as nat, len0, p0, used, %s); }" % (name, pt))
        for q in props + ["UserProperty"]:
            w("@after `PropertyId :: %s => {`" % q)
            w("  proof { lemma_%s_arm_%s(sc, property_len as nat, len0, p0, used, %s); }" % (name, q, pt))
        for q in props:
            pid, ty, f = PROPS[q]
            if ty in ("str", "topic", "bin"):
                pat = "if let Some ( value ) = properties . %s . as_ref ( )" % f
            elif ty == "varint":
                pat = "if let Some ( value ) = properties . %s" % f
            else:
                pat = "if properties . %s . is_some ( )" % f
            occ = 2 if ty == "qos" else 1   # the inline arms (MaximumQoS, SubscriptionIdentifier) test the field once more for the duplicate check
            if ty == "varint":
                w("@before %d `%s`" % (occ, pat))
                w("  proof { lemma_vlen_enc(properties.%s->Some_0.0 as nat); }" % f)
            w("@after %d `%s`" % (occ, pat))
            w("  proof {")
            w("      let v = properties.%s->Some_0;" % f)
            w("      let n = (sc.len() - 1 - reader.stream().len()) as nat;")
            w("      lemma_%s_done_%s(s0, sc, property_len as nat, len0, p0, used, %s, properties, v, n, len as nat);" % (name, q, pt))
            w("      used = used + 1 + n;")
            w("  }")
        w("@after `len += 1 + 4 + last . name . len ( )`")
        w("  proof {")
        w("      let n = (sc.len() - 1 - reader.stream().len()) as nat;")
        w("      lemma_%s_done_UserProperty(s0, sc, property_len as nat, len0, p0, used, %s, properties, user_property, n, len as nat);" % (name, pt))
        w("      used = used + 1 + n;")
        w("  }")
        w("@before `if property_len as usize`")
        w("  proof { lemma_%s_head(reader.stream(), property_len as nat, len as nat, properties, used, %s); }" % (name, pt))
        w("@end")
        w("")
    dec_out = out
    out = enc_out
    w = out.append
    for name, mod, props, is_will in SETS:
        ipath = "%s::{Encodable for %s}" % (mod, name)
        w("@implspec %s" % ipath)
        w("    open spec fn enc(&self) -> Seq<u8> { enc_section(enc_%s_body(*self)) }" % name)
        w("    open spec fn valid(&self) -> bool { %s_ok(*self) }" % name)
        w("@endspec")
        w("")
        # ---------------- encode
        w("@fn %s::encode" % ipath)
        w("@props C01 C02 C09 C10 C11 C14")
        w("@attr #[verifier::rlimit(1200)]")
        w("@attr #[verifier::spinoff_prover]")
        w("@entry")
        for ty in sorted(set(PROPS[q][1] for q in props)):
            w("  hide(put_%s);" % ty)
        w("  let ghost w0 = writer.written();")
        w("  let ghost ups = self.user_properties@;")
        w("  proof { lemma_body_len_%s(*self); }" % name)
        w("@loop 1")
        w("  @invariant")
        w("    #frame: idx_1 <= ups.len() && ups == self.user_properties@ && %s_ok(*self) && w0 == old(writer).written() && writer.written() == w0" % name)
        w("    #acc: sum_acc == ups_sum4(ups.take(idx_1 as int))")
        w("  @decreases ups.len() - idx_1")
        w("  @top")
        w("    proof { reveal(%s_fields_ok); lemma_upto_mono_%s(*self); lemma_ups_take(ups, idx_1 as int); lemma_ups_mono(ups, idx_1 + 1); lemma_ups_len(ups); }" % (name, name))
        w("@before `sum_acc }`")
        w("  proof { assert(ups.take(ups.len() as int) =~= ups); lemma_ups_len(ups); }")
        B = "(ups.len() + ups_sum4(ups)) as nat"

        def len_steps(final_anchor, final_extra):
            for k, q in enumerate(props):
                occ, pat = len_anchor(q)
                w("@before %d `%s`" % (occ, pat))
                w("  proof {")
                if k == 0:
                    w("      #len-0: assert(property_len as nat == %s);" % B)
                else:
                    w("      #len-%d: assert(property_len as nat == pl%d + %s_plen_%d(*self)) by { reveal(%s_plen_%d); }" % (k, k - 1, name, k, name, k))
                    w("      lemma_%s_lstep_%d(*self, %s, pl%d, property_len as nat);" % (name, k, B, k - 1))
                w("      lemma_%s_pbound_%d(*self);" % (name, k + 1))
                if PROPS[q][1] == "varint":
                    w("      if let Some(x) = self.%s { lemma_vlen_enc(x.0 as nat); }" % PROPS[q][2])
                w("  }")
                w("  let ghost pl%d: nat = property_len as nat;" % k)
            w("@before `%s`" % final_anchor)
            w("  proof {")
            K = len(props)
            if K:
                w("      #len-%d: assert(property_len as nat == pl%d + %s_plen_%d(*self)) by { reveal(%s_plen_%d); }" % (K, K - 1, name, K, name, K))
                w("      lemma_%s_lstep_%d(*self, %s, pl%d, property_len as nat);" % (name, K, B, K - 1))
            else:
                w("      #len-0: assert(property_len as nat == %s);" % B)
            w("      #len-total: assert(property_len as nat == enc_%s_body(*self).len());" % name)
            if final_extra:
                w("      " + final_extra)
            w("  }")

        len_steps("write_var_int ( writer ,", "")
        w("@after `write_var_int ( writer ,`")
        w("  let ghost w1 = writer.written();")
        outlined = len(props) > 10
        if outlined:
            # R30: with more than 10 conditional writes through `&mut W` the single query grows exponentially (see DESIGN 9.4);
            # each `if let Some(value) = self.f { write id; write value }` statement is moved, tokens unchanged, into a helper
            for k, q in enumerate(props, 1):
                pid, ty, f = PROPS[q]
                occ, pat = write_anchor(q)
                assert pat.endswith(" {")
                w("@outline %d `%s` => `self . wstep_%d ( writer ) ? ;`" % (occ, pat[:-2], k))
                w("  fn wstep_%d<W: IoWrite>(&self, writer: &mut W) -> (r: io::Result<()>)" % k)
                if ty in OKFN:
                    w("      requires %s(self.%s)," % (OKFN[ty], f))
                w("      ensures")
                w("  #wr-%d: r is Ok ==> final(writer).written() == put_%s(old(writer).written(), 0x%02Xu8, self.%s)" % (k, ty, pid, f))
                w("  #wr-%d-err: r is Err ==> old(writer).can_fail()" % k)
                w("  #wr-%d-frame: final(writer).can_fail() == old(writer).can_fail()" % k)
                w("  tail: Ok(())")
            for k, q in enumerate(props):
                w("@before `self . wstep_%d ( writer )`" % (k + 1))
                if k >= 1:
                    w("  proof { lemma_%s_wstep_%d(w1, *self, wp%d, writer.written()); }" % (name, k, k - 1))
                w("  let ghost wp%d = writer.written();" % k)
        for k, q in enumerate(props):
            if outlined:
                break
            occ, pat = write_anchor(q)
            w("@before %d `%s`" % (occ, pat))
            if k >= 1:
                pid, ty, f = PROPS[props[k - 1]]
                w("  proof {")
                w("      #wr-%d: assert(writer.written() == put_%s(wp%d, 0x%02Xu8, self.%s)) by { reveal(put_%s); }" % (k, ty, k - 1, pid, f, ty))
                w("      lemma_%s_wstep_%d(w1, *self, wp%d, writer.written());" % (name, k, k - 1))
                w("      assert(writer.can_fail() == old(writer).can_fail());")
                w("  }")
            w("  let ghost wp%d = writer.written();" % k)
        w("@before `{ let mut idx_2 : usize = 0 ;`")
        w("  proof {")
        if props:
            K = len(props)
            pid, ty, f = PROPS[props[K - 1]]
            if not outlined:
                w("      #wr-%d: assert(writer.written() == put_%s(wp%d, 0x%02Xu8, self.%s)) by { reveal(put_%s); }" % (K, ty, K - 1, pid, f, ty))
            w("      lemma_%s_wstep_%d(w1, *self, wp%d, writer.written());" % (name, K, K - 1))
            w("      assert(writer.can_fail() == old(writer).can_fail());")
        w("      assert(ups.take(0) =~= Seq::<UserProperty>::empty());")
        w("      lemma_upsok_%s(*self);" % name)
        w("  }")
        w("  let ghost w2 = writer.written();")
        w("@loop 2")
        w("  @invariant")
        w("    #frame: idx_2 <= ups.len() && ups == self.user_properties@ && ups_ok(ups) && w0 == old(writer).written() && writer.can_fail() == old(writer).can_fail()")
        w("    #start: w1 == w0 + enc_varint(enc_%s_body(*self).len() as nat) && w2 == acc_%s_%d(w1, *self)" % (name, name, len(props)))
        w("    #acc: writer.written() == ups_acc(w2, ups.take(idx_2 as int))")
        w("  @decreases ups.len() - idx_2")
        w("  @top")
        w("    proof { lemma_ups_acc_take(w2, ups, idx_2 as int); }")
        w("@before `Ok ( ( ) )`")
        w("  proof { reveal(enc_%s_body); assert(ups.take(ups.len() as int) =~= ups); lemma_ups_acc(w2, ups); lemma_acc_%s(w1, *self); }" % (name, name))
        w("@end")
        w("")
        # ---------------- encode_len
        w("@fn %s::encode_len" % ipath)
        w("@props C01 C02 C09 C10 C11")
        w("@attr #[verifier::rlimit(1200)]")
        w("@attr #[verifier::spinoff_prover]")
        w("@entry")
        w("  let ghost ups = self.user_properties@;")
        w("  proof { lemma_body_len_%s(*self); }" % name)
        w("@loop 1")
        w("  @invariant")
        w("    #frame: idx_1 <= ups.len() && ups == self.user_properties@ && %s_ok(*self) && len == 0" % name)
        w("    #acc: sum_acc == ups_sum4(ups.take(idx_1 as int))")
        w("  @decreases ups.len() - idx_1")
        w("  @top")
        w("    proof { reveal(%s_fields_ok); lemma_upto_mono_%s(*self); lemma_ups_take(ups, idx_1 as int); lemma_ups_mono(ups, idx_1 + 1); lemma_ups_len(ups); }" % (name, name))
        w("@before `sum_acc }`")
        w("  proof { assert(ups.take(ups.len() as int) =~= ups); lemma_ups_len(ups); }")
        len_steps("len += property_len +", "if property_len < 268435456 { lemma_vlen_enc(property_len as nat); }")
        w("@end")
        w("")
    return "\n".join(out) + "\n", "\n".join(dec_out) + "\n"


if __name__ == "__main__":
    a, b = gen()
    import os
    root = os.path.dirname(os.path.dirname(os.path.abspath(__file__)))
    open(os.path.join(root, "contracts", "v5props.vc"), "w").write(a)
    open(os.path.join(root, "contracts", "v5pdec.vc"), "w").write(b)
