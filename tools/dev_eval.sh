#!/bin/bash
# dev_eval.sh <seed-id> <prop>: like eval_seed.sh but does not write result.json
cd "$(dirname "$0")/.."
S=$1; P=$2
R=$(mktemp -d /var/tmp/seedrepo.XXXX)
rsync -a --exclude target --exclude fuzz /repo/ $R/
[ "$S" != "none" ] && { git -C $R apply "$(pwd)/seeded/$S/patch.diff" || exit 2; }
VERIF_REPO=$R VERIF_EVIDENCE_DIR=/var/tmp/dev-evidence timeout 1800 ./vcheck $P quick 2>/dev/null | grep "VIOLATION\|UNDECIDED\|obligations" | cut -c1-260
rm -rf $R
