// ===================================================================
// SPEC-LEVEL COMPOSITION LEMMAS (no executable code): the decoder spec inverts the encoder spec.
// Together with "encoder writes enc_X" and "decoder == p_X" (proved on the real functions) these give
// the round-trip / prefix / trailing-bytes statements of C01, C07, C08, C11 for the covered types.
// ===================================================================

//@lemma props=C01,C07,C08,C10
pub proof fn lemma_u16_roundtrip(v: u16, rest: Seq<u8>)
    ensures p_u16(enc_u16(v) + rest) == PR::<u16, Error>::Ok(v, 2)
{
    let s = enc_u16(v) + rest;
    assert(s[0] == (v / 256) as u8 && s[1] == (v % 256) as u8);
}

//@lemma props=C01,C07,C08,C10
pub proof fn lemma_u32_roundtrip(v: u32, rest: Seq<u8>)
    ensures p_u32(enc_u32(v) + rest) == PR::<u32, Error>::Ok(v, 4)
{
    let s = enc_u32(v) + rest;
    assert(s[0] == (v / 16777216) as u8 && s[1] == ((v / 65536) % 256) as u8 && s[2] == ((v / 256) % 256) as u8 && s[3] == (v % 256) as u8);
}

//@lemma props=C01,C07,C08,C10
pub proof fn lemma_bin_roundtrip(b: Seq<u8>, rest: Seq<u8>)
    requires b.len() <= 65535
    ensures p_bin(enc_bin(b) + rest) == PR::<Seq<u8>, Error>::Ok(b, 2 + b.len())
{
    let s = enc_bin(b) + rest;
    let v = b.len() as u16;
    assert(s[0] == (v / 256) as u8 && s[1] == (v % 256) as u8);
    assert(s.subrange(2, 2 + b.len() as int) =~= b);
}

//@lemma props=C01,C07,C08,C10,C12
pub proof fn lemma_str_roundtrip(t: Seq<char>, rest: Seq<u8>)
    requires sbytes(t).len() <= 65535
    ensures p_str(enc_str(t) + rest) == PR::<Seq<char>, Error>::Ok(t, 2 + sbytes(t).len())
{
    lemma_bin_roundtrip(sbytes(t), rest);
    vstd::utf8::encode_utf8_valid_utf8(t);
    vstd::utf8::encode_utf8_decode_utf8(t);
}

// ---- every strict prefix of a primitive's encoding is Incomplete (never an error, never a value)
//@lemma props=C07
pub proof fn lemma_bin_prefix(b: Seq<u8>, k: int)
    requires b.len() <= 65535, 0 <= k < 2 + b.len()
    ensures p_bin(enc_bin(b).take(k)) == PR::<Seq<u8>, Error>::Inc
{
    let s = enc_bin(b).take(k);
    let v = b.len() as u16;
    if k >= 2 { assert(s[0] == (v / 256) as u8 && s[1] == (v % 256) as u8); }
}

//@lemma props=C07
pub proof fn lemma_str_prefix(t: Seq<char>, k: int)
    requires sbytes(t).len() <= 65535, 0 <= k < 2 + sbytes(t).len()
    ensures p_str(enc_str(t).take(k)) == PR::<Seq<char>, Error>::Inc
{
    lemma_bin_prefix(sbytes(t), k);
}

//@lemma props=C07,C15
pub proof fn lemma_varint_prefix(n: nat, k: int)
    requires n < 268435456, 0 <= k < vlen(n)
    ensures p_varint(enc_varint(n).take(k)) == PR::<u32, Error>::Inc
{
    reveal_with_fuel(enc_varint, 5);
    reveal_with_fuel(p_varint_from, 5);
    lemma_vlen_enc(n);
    let s = enc_varint(n).take(k);
    if k >= 1 {
        assert(s[0] == ((n % 128) + 128) as u8);
        let s1 = s.skip(1);
        if k >= 2 {
            assert(s1[0] == (((n / 128) % 128) + 128) as u8);
            let s2 = s1.skip(1);
            if k >= 3 { assert(s2[0] == (((n / 128 / 128) % 128) + 128) as u8); }
        }
    }
}

// ---- v3 SUBACK (3.9): round trip for every list of return codes
pub proof fn lemma_codes_roundtrip(cs: Seq<SubscribeReturnCode>, rest: Seq<u8>, acc: Seq<SubscribeReturnCode>, used: nat)
    ensures p3_codes(enc_codes(cs) + rest, cs.len(), acc, used) == PR::<Seq<SubscribeReturnCode>, Error>::Ok(acc + cs, used + cs.len())
    decreases cs.len()
{
    reveal_with_fuel(p3_codes, 2);
    if cs.len() == 0 {
        assert(acc + cs =~= acc);
    } else {
        let s = enc_codes(cs) + rest;
        assert(s[0] == src_byte(cs[0]));
        assert(src_of(src_byte(cs[0])) == Ok::<SubscribeReturnCode, Error>(cs[0]));
        assert(s.skip(1) =~= enc_codes(cs.skip(1)) + rest);
        lemma_codes_roundtrip(cs.skip(1), rest, acc.push(cs[0]), used + 1);
        assert(acc.push(cs[0]) + cs.skip(1) =~= acc + cs);
    }
}

//@lemma props=C01,C07,C08,C10,C11
pub proof fn lemma_suback_roundtrip(x: Suback, rest: Seq<u8>)
    requires x.pid.0 != 0
    ensures p3_suback(x.enc() + rest, x.enc().len()) == PR::<Suback, Error>::Ok(x, x.enc().len())
{
    broadcast use group_ext;
    let s = x.enc() + rest;
    let v = x.pid.0;
    assert(s[0] == (v / 256) as u8 && s[1] == (v % 256) as u8);
    assert(s.skip(2) =~= enc_codes(x.topics@) + rest);
    lemma_codes_roundtrip(x.topics@, rest, Seq::empty(), 2);
    assert(Seq::<SubscribeReturnCode>::empty() + x.topics@ =~= x.topics@);
}

// ---- v3 CONNACK (3.2) and the packets that carry only a packet identifier (3.4-3.7, 3.11)
//@lemma props=C01,C07,C08,C10,C11
pub proof fn lemma_connack_roundtrip(c: Connack, rest: Seq<u8>)
    ensures p3_connack(seq![b2u3(c.session_present), crc_byte(c.code)] + rest) == PR::<Connack, Error>::Ok(c, 2)
{
    let s = seq![b2u3(c.session_present), crc_byte(c.code)] + rest;
    assert(s[0] == b2u3(c.session_present) && s[1] == crc_byte(c.code));
}
pub open spec fn b2u3(b: bool) -> u8 { if b { 1u8 } else { 0u8 } }

//@lemma props=C01,C07,C08,C10,C11
pub proof fn lemma_pid_roundtrip(p: Pid, rest: Seq<u8>)
    requires p.0 != 0
    ensures p3_pid(enc_u16(p.0) + rest) == PR::<Pid, Error>::Ok(p, 2)
{
    let s = enc_u16(p.0) + rest;
    assert(s[0] == (p.0 / 256) as u8 && s[1] == (p.0 % 256) as u8);
}

// ---- whole v3 packets with fixed shape: p3_packet(enc_packet3(p) + rest) == p  (framing: trailing bytes ignored)
pub proof fn lemma_raw_header_small(cb: u8, rl: u8, x: Seq<u8>)
    requires rl < 128
    ensures p_raw_header(seq![cb, rl] + x) == PR::<(u8, u32), Error>::Ok((cb, rl as u32), 2)
{
    reveal_with_fuel(p_varint_from, 2);
    let s = seq![cb, rl] + x;
    assert(s[0] == cb && s.skip(1)[0] == rl);
}
//@lemma props=C01,C06,C07,C08,C10,C11
pub proof fn lemma_v3_bodyless(cb: u8, rest: Seq<u8>)
    requires cb == 0xC0u8 || cb == 0xD0u8 || cb == 0xE0u8
    ensures p3_packet(seq![cb, 0u8] + rest) == PR::<Packet, Error>::Ok(if cb == 0xC0u8 { Packet::Pingreq } else if cb == 0xD0u8 { Packet::Pingresp } else { Packet::Disconnect }, 2)
{
    lemma_raw_header_small(cb, 0, rest);
}
//@lemma props=C01,C06,C07,C08,C10,C11
pub proof fn lemma_v3_pid_packet(cb: u8, x: Pid, rest: Seq<u8>)
    requires x.0 != 0, cb == 0x40u8 || cb == 0x50u8 || cb == 0x62u8 || cb == 0x70u8 || cb == 0xB0u8
    ensures p3_packet(with_pid(cb, x) + rest) == PR::<Packet, Error>::Ok(
        if cb == 0x40u8 { Packet::Puback(x) } else if cb == 0x50u8 { Packet::Pubrec(x) } else if cb == 0x62u8 { Packet::Pubrel(x) } else if cb == 0x70u8 { Packet::Pubcomp(x) } else { Packet::Unsuback(x) }, 4)
{
    let s = with_pid(cb, x) + rest;
    assert(s =~= seq![cb, 2u8] + (enc_u16(x.0) + rest));
    lemma_raw_header_small(cb, 2, enc_u16(x.0) + rest);
    assert(s.skip(2) =~= enc_u16(x.0) + rest);
    lemma_pid_roundtrip(x, rest);
}
//@lemma props=C01,C06,C07,C08,C10,C11
pub proof fn lemma_v3_connack_packet(c: Connack, rest: Seq<u8>)
    ensures p3_packet(enc_packet3(Packet::Connack(c)) + rest) == PR::<Packet, Error>::Ok(Packet::Connack(c), 4)
{
    let body = seq![b2u3(c.session_present), crc_byte(c.code)];
    let s = enc_packet3(Packet::Connack(c)) + rest;
    assert(s =~= seq![0x20u8, 2u8] + (body + rest));
    lemma_raw_header_small(0x20u8, 2, body + rest);
    assert(s.skip(2) =~= body + rest);
    lemma_connack_roundtrip(c, rest);
}

// ---- general framing: fixed header with a variable-length remaining length (2.2.3), any body below 256 MiB
pub proof fn lemma_frame_header(cb: u8, body: Seq<u8>, rest: Seq<u8>)
    requires body.len() < 268435456
    ensures
        p_raw_header(frame(cb, body) + rest) == PR::<(u8, u32), Error>::Ok((cb, body.len() as u32), 1 + vlen(body.len())),
        (frame(cb, body) + rest).skip(1 + vlen(body.len()) as int) =~= body + rest,
{
    let s = frame(cb, body) + rest;
    lemma_vlen_enc(body.len());
    assert(s[0] == cb);
    assert(s.skip(1) =~= enc_varint(body.len()) + (body + rest));
    lemma_varint_roundtrip(body.len(), body + rest);
}

// ---- v3 PUBLISH (3.3): the body decoder inverts the body encoder for every valid Publish, under the header the encoder writes
pub open spec fn qos_of_qp(q: QosPid) -> QoS { match q { QosPid::Level0 => QoS::Level0, QosPid::Level1(_) => QoS::Level1, QosPid::Level2(_) => QoS::Level2 } }
pub open spec fn qp_pid_ok(q: QosPid) -> bool { match q { QosPid::Level0 => true, QosPid::Level1(p) => p.0 != 0, QosPid::Level2(p) => p.0 != 0 } }
//@lemma props=C01,C07,C08,C10,C11,C12
pub proof fn lemma_publish_roundtrip(x: Publish, h: Header, rest: Seq<u8>)
    requires
        x.valid(), name_ok(x.topic_name.text()), qp_pid_ok(x.qos_pid),
        h.remaining_len as nat == x.enc().len(), h.dup == x.dup, h.retain == x.retain, h.qos == qos_of_qp(x.qos_pid),
    ensures p3_publish(x.enc() + rest, h) == PR::<Publish, Error>::Ok(x, x.enc().len())
{
    broadcast use group_ext;
    let t = x.topic_name.text();
    let tail = enc_qos_pid(x.qos_pid) + x.payload@ + rest;
    let s = x.enc() + rest;
    assert(s =~= enc_str(t) + tail);
    lemma_str_roundtrip(t, tail);
    let n1 = 2 + sbytes(t).len();
    match x.qos_pid {
        QosPid::Level0 => {
            assert(s.subrange(n1 as int, (n1 + x.payload@.len()) as int) =~= x.payload@);
        }
        QosPid::Level1(p) => {
            assert(s[n1 as int] == (p.0 / 256) as u8 && s[n1 as int + 1] == (p.0 % 256) as u8);
            assert(s.subrange((n1 + 2) as int, (n1 + 2 + x.payload@.len()) as int) =~= x.payload@);
        }
        QosPid::Level2(p) => {
            assert(s[n1 as int] == (p.0 / 256) as u8 && s[n1 as int + 1] == (p.0 % 256) as u8);
            assert(s.subrange((n1 + 2) as int, (n1 + 2 + x.payload@.len()) as int) =~= x.payload@);
        }
    }
}

pub proof fn lemma_pub_ctrl_header(dup: bool, retain: bool, q: QosPid, rl: u32)
    ensures header3_of(pub_ctrl(dup, retain, q), rl) == Ok::<Header, Error>(Header { typ: PacketType::Publish, dup, qos: qos_of_qp(q), retain, remaining_len: rl })
{
    let b0: u8 = match q { QosPid::Level0 => 0b00110000u8, QosPid::Level1(_) => 0b00110010u8, QosPid::Level2(_) => 0b00110100u8 };
    assert(b0 | 0b00001000 == b0 + 8 && b0 | 0b00000001 == b0 + 1 && (b0 | 0b00001000) | 0b00000001 == b0 + 9) by (bit_vector)
        requires b0 == 0b00110000u8 || b0 == 0b00110010u8 || b0 == 0b00110100u8;
}

//@lemma props=C01,C06,C07,C08,C10,C11,C12
pub proof fn lemma_v3_publish_packet(x: Publish, rest: Seq<u8>)
    requires x.valid(), name_ok(x.topic_name.text()), qp_pid_ok(x.qos_pid), x.enc().len() < 268435456
    ensures p3_packet(enc_packet3(Packet::Publish(x)) + rest) == PR::<Packet, Error>::Ok(Packet::Publish(x), enc_packet3(Packet::Publish(x)).len())
{
    let cb = pub_ctrl(x.dup, x.retain, x.qos_pid);
    let rl = x.enc().len() as u32;
    lemma_frame_header(cb, x.enc(), rest);
    lemma_vlen_enc(x.enc().len());
    lemma_pub_ctrl_header(x.dup, x.retain, x.qos_pid, rl);
    let h = Header { typ: PacketType::Publish, dup: x.dup, qos: qos_of_qp(x.qos_pid), retain: x.retain, remaining_len: rl };
    lemma_publish_roundtrip(x, h, rest);
}

// ---- v3 SUBSCRIBE (3.8) / UNSUBSCRIBE (3.10): lists of well-formed filters round-trip
pub proof fn lemma_filter_of_text(tf: TopicFilter)
    requires tf.wf()
    ensures topic_filter_of(tf.text()) == Ok::<TopicFilter, Error>(tf)
{
    broadcast use group_ext;
}
pub open spec fn sub_items_wf(items: Seq<(TopicFilter, QoS)>) -> bool { forall|i: int| 0 <= i < items.len() ==> (#[trigger] items[i]).0.wf() }
pub proof fn lemma_enc_sub_items_front(items: Seq<(TopicFilter, QoS)>)
    requires items.len() > 0
    ensures enc_sub_items(items) =~= enc_str(items[0].0.text()) + seq![qos_byte(items[0].1)] + enc_sub_items(items.skip(1))
    decreases items.len()
{
    if items.len() == 1 {
        assert(items.drop_last() =~= Seq::<(TopicFilter, QoS)>::empty());
        assert(items.skip(1) =~= Seq::<(TopicFilter, QoS)>::empty());
        reveal_with_fuel(enc_sub_items, 2);
    } else {
        lemma_enc_sub_items_front(items.drop_last());
        assert(items.drop_last().skip(1) =~= items.skip(1).drop_last());
        assert(items.skip(1).last() == items.last());
        assert(items.drop_last()[0] == items[0]);
    }
}
pub proof fn lemma_sub_items_step(s: Seq<u8>, rem: nat, acc: Seq<(TopicFilter, QoS)>, used: nat, t: Seq<char>, n1: nat, tf: TopicFilter, q: QoS)
    requires rem >= n1 + 1, p_str(s) == PR::<Seq<char>, Error>::Ok(t, n1), topic_filter_of(t) == Ok::<TopicFilter, Error>(tf),
        s.len() > n1, qos_of(s[n1 as int]) == Ok::<QoS, Error>(q)
    ensures p3_sub_items(s, rem, acc, used) == p3_sub_items(s.skip(n1 as int + 1), (rem - (n1 + 1)) as nat, acc.push((tf, q)), used + n1 + 1)
{
    assert(s.skip(n1 as int)[0] == s[n1 as int]);
}
pub proof fn lemma_sub_items_roundtrip(items: Seq<(TopicFilter, QoS)>, rest: Seq<u8>, acc: Seq<(TopicFilter, QoS)>, used: nat)
    requires sub_items_ok(items), sub_items_wf(items)
    ensures p3_sub_items(enc_sub_items(items) + rest, enc_sub_items(items).len(), acc, used) == PR::<Seq<(TopicFilter, QoS)>, Error>::Ok(acc + items, used + enc_sub_items(items).len())
    decreases items.len()
{
    hide(p3_sub_items);
    hide(filter_ok);
    if items.len() == 0 {
        assert(acc + items =~= acc);
        assert(p3_sub_items(enc_sub_items(items) + rest, 0, acc, used) == PR::<Seq<(TopicFilter, QoS)>, Error>::Ok(acc, used)) by { reveal(p3_sub_items); }
    } else {
        let tf = items[0].0; let q = items[0].1; let t = tf.text();
        let tl = items.skip(1);
        lemma_enc_sub_items_front(items);
        let s = enc_sub_items(items) + rest;
        let tail = seq![qos_byte(q)] + enc_sub_items(tl) + rest;
        assert(s =~= enc_str(t) + tail);
        lemma_str_roundtrip(t, tail);
        let n1 = 2 + sbytes(t).len();
        assert(s[n1 as int] == qos_byte(q));
        assert(qos_of(qos_byte(q)) == Ok::<QoS, Error>(q));
        lemma_filter_of_text(tf);
        lemma_sub_items_step(s, enc_sub_items(items).len(), acc, used, t, n1, tf, q);
        assert(s.skip(n1 as int + 1) =~= enc_sub_items(tl) + rest);
        assert(sub_items_ok(tl) && sub_items_wf(tl)) by { assert forall|i: int| 0 <= i < tl.len() implies sbytes((#[trigger] tl[i]).0.text()).len() <= 65535 && tl[i].0.wf() by { assert(tl[i] == items[i + 1]); } }
        lemma_sub_items_roundtrip(tl, rest, acc.push((tf, q)), used + n1 + 1);
        assert(acc.push((tf, q)) + tl =~= acc + items);
    }
}
//@lemma props=C01,C07,C08,C10,C11,C12
pub proof fn lemma_subscribe_roundtrip(x: Subscribe, rest: Seq<u8>)
    requires x.valid(), sub_items_wf(x.topics@), x.pid.0 != 0, x.topics@.len() > 0
    ensures p3_subscribe(x.enc() + rest, x.enc().len()) == PR::<Subscribe, Error>::Ok(x, x.enc().len())
{
    broadcast use group_ext;
    let s = x.enc() + rest;
    let v = x.pid.0;
    assert(s[0] == (v / 256) as u8 && s[1] == (v % 256) as u8);
    assert(s.skip(2) =~= enc_sub_items(x.topics@) + rest);
    lemma_enc_sub_items_front(x.topics@);
    lemma_sub_items_roundtrip(x.topics@, rest, Seq::empty(), 2);
    assert(Seq::<(TopicFilter, QoS)>::empty() + x.topics@ =~= x.topics@);
}
//@lemma props=C01,C06,C07,C08,C10,C11,C12
pub proof fn lemma_v3_subscribe_packet(x: Subscribe, rest: Seq<u8>)
    requires x.valid(), sub_items_wf(x.topics@), x.pid.0 != 0, x.topics@.len() > 0, x.enc().len() < 268435456
    ensures p3_packet(enc_packet3(Packet::Subscribe(x)) + rest) == PR::<Packet, Error>::Ok(Packet::Subscribe(x), enc_packet3(Packet::Subscribe(x)).len())
{
    lemma_frame_header(0x82u8, x.enc(), rest);
    lemma_vlen_enc(x.enc().len());
    lemma_subscribe_roundtrip(x, rest);
}

pub open spec fn unsub_items_wf(items: Seq<TopicFilter>) -> bool { forall|i: int| 0 <= i < items.len() ==> (#[trigger] items[i]).wf() }
pub proof fn lemma_enc_unsub_items_front(items: Seq<TopicFilter>)
    requires items.len() > 0
    ensures enc_unsub_items(items) =~= enc_str(items[0].text()) + enc_unsub_items(items.skip(1))
    decreases items.len()
{
    if items.len() == 1 {
        assert(items.drop_last() =~= Seq::<TopicFilter>::empty());
        assert(items.skip(1) =~= Seq::<TopicFilter>::empty());
        reveal_with_fuel(enc_unsub_items, 2);
    } else {
        lemma_enc_unsub_items_front(items.drop_last());
        assert(items.drop_last().skip(1) =~= items.skip(1).drop_last());
        assert(items.skip(1).last() == items.last());
        assert(items.drop_last()[0] == items[0]);
    }
}
pub proof fn lemma_unsub_items_roundtrip(items: Seq<TopicFilter>, rest: Seq<u8>, acc: Seq<TopicFilter>, used: nat)
    requires unsub_items_ok(items), unsub_items_wf(items)
    ensures p3_unsub_items(enc_unsub_items(items) + rest, enc_unsub_items(items).len(), acc, used) == PR::<Seq<TopicFilter>, Error>::Ok(acc + items, used + enc_unsub_items(items).len())
    decreases items.len()
{
    if items.len() == 0 {
        assert(acc + items =~= acc);
    } else {
        let tf = items[0]; let t = tf.text();
        let tl = items.skip(1);
        lemma_enc_unsub_items_front(items);
        let s = enc_unsub_items(items) + rest;
        let tail = enc_unsub_items(tl) + rest;
        assert(s =~= enc_str(t) + tail);
        lemma_str_roundtrip(t, tail);
        let n1 = 2 + sbytes(t).len();
        assert(s.skip(n1 as int) =~= tail);
        lemma_filter_of_text(tf);
        assert(unsub_items_ok(tl) && unsub_items_wf(tl)) by { assert forall|i: int| 0 <= i < tl.len() implies sbytes((#[trigger] tl[i]).text()).len() <= 65535 && tl[i].wf() by { assert(tl[i] == items[i + 1]); } }
        lemma_unsub_items_roundtrip(tl, rest, acc.push(tf), used + n1);
        assert(acc.push(tf) + tl =~= acc + items);
    }
}
//@lemma props=C01,C07,C08,C10,C11,C12
pub proof fn lemma_unsubscribe_roundtrip(x: Unsubscribe, rest: Seq<u8>)
    requires x.valid(), unsub_items_wf(x.topics@), x.pid.0 != 0, x.topics@.len() > 0
    ensures p3_unsubscribe(x.enc() + rest, x.enc().len()) == PR::<Unsubscribe, Error>::Ok(x, x.enc().len())
{
    broadcast use group_ext;
    let s = x.enc() + rest;
    let v = x.pid.0;
    assert(s[0] == (v / 256) as u8 && s[1] == (v % 256) as u8);
    assert(s.skip(2) =~= enc_unsub_items(x.topics@) + rest);
    lemma_enc_unsub_items_front(x.topics@);
    lemma_unsub_items_roundtrip(x.topics@, rest, Seq::empty(), 2);
    assert(Seq::<TopicFilter>::empty() + x.topics@ =~= x.topics@);
}
//@lemma props=C01,C06,C07,C08,C10,C11,C12
pub proof fn lemma_v3_unsubscribe_packet(x: Unsubscribe, rest: Seq<u8>)
    requires x.valid(), unsub_items_wf(x.topics@), x.pid.0 != 0, x.topics@.len() > 0, x.enc().len() < 268435456
    ensures p3_packet(enc_packet3(Packet::Unsubscribe(x)) + rest) == PR::<Packet, Error>::Ok(Packet::Unsubscribe(x), enc_packet3(Packet::Unsubscribe(x)).len())
{
    lemma_frame_header(0xA2u8, x.enc(), rest);
    lemma_vlen_enc(x.enc().len());
    lemma_unsubscribe_roundtrip(x, rest);
}
//@lemma props=C01,C06,C07,C08,C10,C11
pub proof fn lemma_v3_suback_packet(x: Suback, rest: Seq<u8>)
    requires x.valid(), x.pid.0 != 0, x.enc().len() < 268435456
    ensures p3_packet(enc_packet3(Packet::Suback(x)) + rest) == PR::<Packet, Error>::Ok(Packet::Suback(x), enc_packet3(Packet::Suback(x)).len())
{
    lemma_frame_header(0x90u8, x.enc(), rest);
    lemma_vlen_enc(x.enc().len());
    lemma_suback_roundtrip(x, rest);
}

// ---- v3 CONNECT (3.1): protocol name/level, connect flags, payload fields in order
pub proof fn lemma_protocol_roundtrip(p: Protocol, rest: Seq<u8>)
    ensures p_protocol(p.enc() + rest) == PR::<Protocol, Error>::Ok(p, p.enc().len())
{
    let nm = proto_name(p);
    let tail = seq![proto_level(p)] + rest;
    let s = p.enc() + rest;
    assert(s =~= enc_bin(nm) + tail);
    lemma_bin_roundtrip(nm, tail);
    assert(s.skip(2 + nm.len() as int) =~= tail);
    assert(tail[0] == proto_level(p));
    assert(name_mqisdp().len() == 6 && name_mqtt().len() == 4);
}
pub proof fn lemma_flags_bits(cs: bool, un: bool, pw: bool, will: bool, q: u8, wr: bool)
    by (bit_vector)
    requires q <= 2
    ensures ({
        let f0 = 0u8;
        let f1 = if cs { f0 | 0b10 } else { f0 };
        let f2 = if un { f1 | 0b10000000 } else { f1 };
        let f3 = if pw { f2 | 0b01000000 } else { f2 };
        let f = if will { let g = (f3 | 0b00000100) | (q << 3); if wr { g | 0b00100000 } else { g } } else { f3 };
        &&& f & 1 == 0
        &&& ((f & 0b10) != 0) == cs
        &&& ((f & 0b10000000) != 0) == un
        &&& ((f & 0b01000000) != 0) == pw
        &&& ((f & 0b100) != 0) == will
        &&& will ==> (f & 0b11000) >> 3 == q && ((f & 0b00100000) != 0) == wr
        &&& !will ==> f & 0b11000 == 0
    })
{}
pub proof fn lemma_connect_flags3(c: Connect)
    ensures ({
        let f = connect_flags3(c);
        &&& f & 1 == 0
        &&& ((f & 0b10) != 0) == c.clean_session
        &&& ((f & 0b10000000) != 0) == (c.username is Some)
        &&& ((f & 0b01000000) != 0) == (c.password is Some)
        &&& ((f & 0b100) != 0) == (c.last_will is Some)
        &&& c.last_will matches Some(w) ==> (f & 0b11000) >> 3 == qos_byte(w.qos) && ((f & 0b00100000) != 0) == w.retain
        &&& c.last_will is None ==> f & 0b11000 == 0
    })
{
    match c.last_will {
        Some(w) => lemma_flags_bits(c.clean_session, c.username is Some, c.password is Some, true, qos_byte(w.qos), w.retain),
        None => lemma_flags_bits(c.clean_session, c.username is Some, c.password is Some, false, 0, false),
    }
}
pub proof fn lemma_will_roundtrip(w: LastWill, flags: u8, rest: Seq<u8>)
    requires w.valid(), name_ok(w.topic_name.text()), flags & 0b100 != 0, (flags & 0b11000) >> 3 == qos_byte(w.qos), ((flags & 0b00100000) != 0) == w.retain
    ensures p3_will(w.enc() + rest, flags) == PR::<Option<LastWill>, Error>::Ok(Some(w), w.enc().len())
{
    broadcast use group_ext;
    let t = w.topic_name.text();
    let tail = enc_bin(w.message@) + rest;
    let s = w.enc() + rest;
    assert(s =~= enc_str(t) + tail);
    lemma_str_roundtrip(t, tail);
    assert(s.skip(2 + sbytes(t).len() as int) =~= tail);
    lemma_bin_roundtrip(w.message@, rest);
    assert(qos_of(qos_byte(w.qos)) == Ok::<QoS, Error>(w.qos));
}
pub proof fn lemma_opt_str_roundtrip(o: Option<Arc<String>>, rest: Seq<u8>)
    requires opt_str_ok(o)
    ensures p3_opt_str(enc_opt_str(o) + rest, o is Some) == PR::<Option<Arc<String>>, Error>::Ok(o, enc_opt_str(o).len())
{
    broadcast use group_ext;
    match o { Some(v) => { lemma_str_roundtrip(v@, rest); } None => {} }
}
pub proof fn lemma_opt_bin_roundtrip(o: Option<Bytes>, rest: Seq<u8>)
    requires opt_bin_ok(o)
    ensures p3_opt_bin(enc_opt_bin(o) + rest, o is Some) == PR::<Option<Bytes>, Error>::Ok(o, enc_opt_bin(o).len())
{
    broadcast use group_ext;
    match o { Some(v) => { lemma_bin_roundtrip(v@, rest); } None => {} }
}
pub open spec fn connect_wf3(c: Connect) -> bool {
    c.valid() && c.protocol != Protocol::V500 && (match c.last_will { Some(w) => name_ok(w.topic_name.text()), None => true })
}
pub open spec fn enc_will3(c: Connect) -> Seq<u8> { match c.last_will { Some(w) => w.enc(), None => Seq::empty() } }
pub proof fn lemma_connect_body_parse(s: Seq<u8>, protocol: Protocol, cid: Seq<char>, n1: nat, will: Option<LastWill>, n2: nat, user: Option<Arc<String>>, n3: nat, pass: Option<Bytes>, n4: nat)
    requires
        protocol != Protocol::V500, s.len() >= 3, s[0] & 1 == 0,
        p_str(s.skip(3)) == PR::<Seq<char>, Error>::Ok(cid, n1),
        p3_will(s.skip(3 + n1 as int), s[0]) == PR::<Option<LastWill>, Error>::Ok(will, n2),
        p3_opt_str(s.skip(3 + n1 as int + n2 as int), s[0] & 0b10000000 != 0) == PR::<Option<Arc<String>>, Error>::Ok(user, n3),
        p3_opt_bin(s.skip(3 + n1 as int + n2 as int + n3 as int), s[0] & 0b01000000 != 0) == PR::<Option<Bytes>, Error>::Ok(pass, n4),
    ensures p3_connect_body(s, protocol) == PR::<Connect, Error>::Ok(Connect {
            protocol, clean_session: (s[0] & 0b10) != 0, keep_alive: be16(s[1], s[2]),
            client_id: Arc::new(mk_string(cid)), last_will: will, username: user, password: pass }, 3 + n1 + n2 + n3 + n4)
{
    hide(p3_will); hide(p3_opt_str); hide(p3_opt_bin); hide(p_str);
}
pub proof fn lemma_skip_concat(a: Seq<u8>, b: Seq<u8>)
    ensures (a + b).skip(a.len() as int) == b
{ assert((a + b).skip(a.len() as int) =~= b); }
pub proof fn lemma_skip_skip(s: Seq<u8>, a: int, b: int)
    requires 0 <= a, 0 <= b, a + b <= s.len()
    ensures s.skip(a).skip(b) == s.skip(a + b)
{ assert(s.skip(a).skip(b) =~= s.skip(a + b)); }
pub proof fn lemma_nest7(a: Seq<u8>, b: Seq<u8>, c: Seq<u8>, d: Seq<u8>, e: Seq<u8>, f: Seq<u8>, g: Seq<u8>)
    ensures a + b + c + d + e + f + g == (a + b) + (c + (d + (e + (f + g))))
{ assert(a + b + c + d + e + f + g =~= (a + b) + (c + (d + (e + (f + g))))); }
pub proof fn lemma_connect_body_roundtrip(c: Connect, rest: Seq<u8>)
    requires connect_wf3(c)
    ensures ({
        let body = seq![connect_flags3(c)] + enc_u16(c.keep_alive) + enc_str(c.client_id@) + enc_will3(c) + enc_opt_str(c.username) + enc_opt_bin(c.password);
        p3_connect_body(body + rest, c.protocol) == PR::<Connect, Error>::Ok(c, body.len())
    })
{
    hide(connect_flags3); hide(p3_will); hide(p3_opt_str); hide(p3_opt_bin); hide(name_ok); hide(p_str); hide(p_bin); hide(p3_connect_body);
    let f = connect_flags3(c);
    lemma_connect_flags3(c);
    let pa = seq![f]; let pb = enc_u16(c.keep_alive); let pc = enc_str(c.client_id@); let pd = enc_will3(c); let pe = enc_opt_str(c.username); let pf = enc_opt_bin(c.password);
    let t4 = pf + rest;
    let t3 = pe + t4;
    let t2 = pd + t3;
    let t1 = pc + t2;
    let hd = pa + pb;
    let s = pa + pb + pc + pd + pe + pf + rest;
    lemma_nest7(pa, pb, pc, pd, pe, pf, rest);
    assert(s == hd + t1);
    assert(hd.len() == 3);
    assert(s[0] == f && s[1] == (c.keep_alive / 256) as u8 && s[2] == (c.keep_alive % 256) as u8) by {
        assert(hd[0] == f && hd[1] == (c.keep_alive / 256) as u8 && hd[2] == (c.keep_alive % 256) as u8);
        assert(s[0] == hd[0] && s[1] == hd[1] && s[2] == hd[2]);
    }
    lemma_skip_concat(hd, t1);
    assert(s.skip(3) == t1);
    lemma_str_roundtrip(c.client_id@, t2);
    let n1 = 2 + sbytes(c.client_id@).len();
    let n2 = pd.len();
    let n3 = pe.len();
    let n4 = pf.len();
    assert(pc.len() == n1);
    lemma_skip_concat(pc, t2);
    lemma_skip_skip(s, 3, n1 as int);
    assert(s.skip(3 + n1 as int) == t2);
    match c.last_will {
        Some(w) => { lemma_will_roundtrip(w, f, t3); }
        None => { assert(t2 =~= t3); assert(p3_will(t2, f) == PR::<Option<LastWill>, Error>::Ok(None, 0)) by { reveal(p3_will); } }
    }
    assert(p3_will(t2, f) == PR::<Option<LastWill>, Error>::Ok(c.last_will, n2));
    lemma_skip_concat(pd, t3);
    lemma_skip_skip(s, 3 + n1 as int, n2 as int);
    assert(s.skip(3 + n1 as int + n2 as int) == t3);
    lemma_opt_str_roundtrip(c.username, t4);
    lemma_skip_concat(pe, t4);
    lemma_skip_skip(s, 3 + n1 as int + n2 as int, n3 as int);
    assert(s.skip(3 + n1 as int + n2 as int + n3 as int) == t4);
    lemma_opt_bin_roundtrip(c.password, rest);
    lemma_connect_body_parse(s, c.protocol, c.client_id@, n1, c.last_will, n2, c.username, n3, c.password, n4);
    assert(Arc::new(mk_string(c.client_id@)) == c.client_id) by { broadcast use group_ext; }
    assert(s.len() == 3 + n1 + n2 + n3 + n4 + rest.len());
}
//@lemma props=C01,C07,C08,C10,C11,C12
pub proof fn lemma_connect_roundtrip(c: Connect, rest: Seq<u8>)
    requires connect_wf3(c)
    ensures p3_connect(c.enc() + rest) == PR::<Connect, Error>::Ok(c, c.enc().len())
{
    hide(p3_connect_body); hide(connect_flags3); hide(p_protocol);
    let body = seq![connect_flags3(c)] + enc_u16(c.keep_alive) + enc_str(c.client_id@) + enc_will3(c) + enc_opt_str(c.username) + enc_opt_bin(c.password);
    let s = c.enc() + rest;
    assert(s =~= c.protocol.enc() + (body + rest));
    lemma_protocol_roundtrip(c.protocol, body + rest);
    assert(s.skip(c.protocol.enc().len() as int) =~= body + rest);
    lemma_connect_body_roundtrip(c, rest);
    assert(c.enc().len() == c.protocol.enc().len() + body.len());
}
//@lemma props=C01,C06,C07,C08,C10,C11,C12
pub proof fn lemma_v3_connect_packet(c: Connect, rest: Seq<u8>)
    requires connect_wf3(c), c.enc().len() < 268435456
    ensures p3_packet(enc_packet3(Packet::Connect(c)) + rest) == PR::<Packet, Error>::Ok(Packet::Connect(c), enc_packet3(Packet::Connect(c)).len())
{
    hide(p3_connect); hide(connect_flags3);
    lemma_frame_header(0x10u8, c.enc(), rest);
    lemma_vlen_enc(c.enc().len());
    lemma_connect_roundtrip(c, rest);
}

// ===================================================================
// C07, first half, at spec level: every strict prefix of an encoded v3 packet is Incomplete (never a value, never an error)
// ===================================================================
pub proof fn lemma_hdr_any(cb: u8, n: nat, x: Seq<u8>)
    requires n < 268435456
    ensures
        p_raw_header(seq![cb] + enc_varint(n) + x) == PR::<(u8, u32), Error>::Ok((cb, n as u32), 1 + vlen(n)),
        (seq![cb] + enc_varint(n) + x).skip(1 + vlen(n) as int) == x,
{
    let s = seq![cb] + enc_varint(n) + x;
    lemma_vlen_enc(n);
    assert(s[0] == cb);
    assert(s.skip(1) =~= enc_varint(n) + x);
    lemma_varint_roundtrip(n, x);
    assert(s.skip(1 + vlen(n) as int) =~= x);
}
/// a strict prefix of the fixed header alone
pub proof fn lemma_hdr_prefix(cb: u8, n: nat, x: Seq<u8>, k: int)
    requires n < 268435456, 0 <= k < 1 + vlen(n)
    ensures p_raw_header((seq![cb] + enc_varint(n) + x).take(k)) == PR::<(u8, u32), Error>::Inc
{
    let s = (seq![cb] + enc_varint(n) + x).take(k);
    lemma_vlen_enc(n);
    if k >= 1 {
        assert(s.skip(1) =~= enc_varint(n).take(k - 1));
        lemma_varint_prefix(n, k - 1);
    }
}
/// a prefix that covers the fixed header: what is left is the same prefix of the body
pub proof fn lemma_frame_take(cb: u8, body: Seq<u8>, k: int)
    requires body.len() < 268435456, 1 + vlen(body.len()) <= k <= frame(cb, body).len()
    ensures frame(cb, body).take(k) == seq![cb] + enc_varint(body.len()) + body.take(k - 1 - vlen(body.len()))
{
    lemma_vlen_enc(body.len());
    assert(frame(cb, body).take(k) =~= seq![cb] + enc_varint(body.len()) + body.take(k - 1 - vlen(body.len())));
}
pub open spec fn is_inc<T>(p: PR<T, Error>) -> bool { p is Inc }

// ---- bodies
//@lemma props=C07
pub proof fn lemma_pid_body_prefix(p: Pid, j: int)
    requires 0 <= j < 2
    ensures p3_pid(enc_u16(p.0).take(j)) == PR::<Pid, Error>::Inc
{}
//@lemma props=C07
pub proof fn lemma_connack_body_prefix(c: Connack, j: int)
    requires 0 <= j < 2
    ensures p3_connack(seq![b2u3(c.session_present), crc_byte(c.code)].take(j)) == PR::<Connack, Error>::Inc
{}
pub proof fn lemma_codes_prefix(cs: Seq<SubscribeReturnCode>, j: int, rem: nat, acc: Seq<SubscribeReturnCode>, used: nat)
    requires 0 <= j < cs.len(), rem == cs.len()
    ensures p3_codes(enc_codes(cs).take(j), rem, acc, used) == PR::<Seq<SubscribeReturnCode>, Error>::Inc
    decreases cs.len()
{
    reveal_with_fuel(p3_codes, 2);
    let s = enc_codes(cs).take(j);
    if j > 0 {
        assert(s[0] == src_byte(cs[0]));
        assert(src_of(src_byte(cs[0])) == Ok::<SubscribeReturnCode, Error>(cs[0]));
        assert(s.skip(1) =~= enc_codes(cs.skip(1)).take(j - 1));
        lemma_codes_prefix(cs.skip(1), j - 1, (rem - 1) as nat, acc.push(cs[0]), used + 1);
    }
}
//@lemma props=C07
pub proof fn lemma_suback_body_prefix(x: Suback, j: int)
    requires x.pid.0 != 0, 0 <= j < x.enc().len()
    ensures p3_suback(x.enc().take(j), x.enc().len()) == PR::<Suback, Error>::Inc
{
    let s = x.enc().take(j);
    let v = x.pid.0;
    if j >= 2 {
        assert(s[0] == (v / 256) as u8 && s[1] == (v % 256) as u8);
        assert(s.skip(2) =~= enc_codes(x.topics@).take(j - 2));
        lemma_codes_prefix(x.topics@, j - 2, x.topics@.len(), Seq::empty(), 2);
    }
}
//@lemma props=C07
pub proof fn lemma_publish_body_prefix(x: Publish, h: Header, j: int)
    requires
        x.valid(), name_ok(x.topic_name.text()), qp_pid_ok(x.qos_pid),
        h.remaining_len as nat == x.enc().len(), h.qos == qos_of_qp(x.qos_pid), 0 <= j < x.enc().len(),
    ensures p3_publish(x.enc().take(j), h) == PR::<Publish, Error>::Inc
{
    let t = x.topic_name.text();
    let n1 = 2 + sbytes(t).len();
    let tail = enc_qos_pid(x.qos_pid) + x.payload@;
    let s = x.enc().take(j);
    assert(x.enc() =~= enc_str(t) + tail);
    if j < n1 {
        assert(s =~= enc_str(t).take(j));
        lemma_str_prefix(t, j);
    } else {
        assert(s =~= enc_str(t) + tail.take(j - n1));
        lemma_str_roundtrip(t, tail.take(j - n1));
        match x.qos_pid {
            QosPid::Level0 => {}
            QosPid::Level1(p) => { if j >= n1 + 2 { assert(s[n1 as int] == (p.0 / 256) as u8 && s[n1 as int + 1] == (p.0 % 256) as u8); } }
            QosPid::Level2(p) => { if j >= n1 + 2 { assert(s[n1 as int] == (p.0 / 256) as u8 && s[n1 as int + 1] == (p.0 % 256) as u8); } }
        }
    }
}

// ---- whole packets
pub proof fn lemma_v3_prefix_of_frame(cb: u8, body: Seq<u8>, k: int, h: Header)
    requires body.len() < 268435456, 0 <= k < frame(cb, body).len(),
        header3_of(cb, body.len() as u32) == Ok::<Header, Error>(h),
        k >= 1 + vlen(body.len()) ==> is_inc(p3_body(h, body.take(k - 1 - vlen(body.len())))),
    ensures p3_packet(frame(cb, body).take(k)) == PR::<Packet, Error>::Inc
{
    let n = body.len();
    lemma_vlen_enc(n);
    if k < 1 + vlen(n) {
        lemma_hdr_prefix(cb, n, body, k);
    } else {
        let j = k - 1 - vlen(n);
        lemma_frame_take(cb, body, k);
        lemma_hdr_any(cb, n, body.take(j));
    }
}
//@lemma props=C07
pub proof fn lemma_v3_bodyless_prefix(cb: u8, k: int)
    requires 0 <= k < 2
    ensures p3_packet(seq![cb, 0u8].take(k)) == PR::<Packet, Error>::Inc
{
    reveal_with_fuel(p_varint_from, 2);
    let s = seq![cb, 0u8].take(k);
    if k == 1 { assert(s.skip(1).len() == 0); }
}
//@lemma props=C07
pub proof fn lemma_v3_pid_packet_prefix(cb: u8, x: Pid, k: int)
    requires cb == 0x40u8 || cb == 0x50u8 || cb == 0x62u8 || cb == 0x70u8 || cb == 0xB0u8, 0 <= k < 4
    ensures p3_packet(with_pid(cb, x).take(k)) == PR::<Packet, Error>::Inc
{
    reveal_with_fuel(enc_varint, 2);
    let body = enc_u16(x.0);
    assert(with_pid(cb, x) =~= frame(cb, body));
    assert(vlen(2) == 1);
    let h = Header { typ: if cb == 0x40u8 { PacketType::Puback } else if cb == 0x50u8 { PacketType::Pubrec } else if cb == 0x62u8 { PacketType::Pubrel } else if cb == 0x70u8 { PacketType::Pubcomp } else { PacketType::Unsuback },
                     dup: false, qos: QoS::Level0, retain: false, remaining_len: 2 };
    if k >= 2 { lemma_pid_body_prefix(x, k - 2); }
    lemma_v3_prefix_of_frame(cb, body, k, h);
}
//@lemma props=C07
pub proof fn lemma_v3_connack_packet_prefix(c: Connack, k: int)
    requires 0 <= k < 4
    ensures p3_packet(enc_packet3(Packet::Connack(c)).take(k)) == PR::<Packet, Error>::Inc
{
    reveal_with_fuel(enc_varint, 2);
    let body = seq![b2u3(c.session_present), crc_byte(c.code)];
    assert(enc_packet3(Packet::Connack(c)) =~= frame(0x20u8, body));
    assert(vlen(2) == 1);
    let h = Header { typ: PacketType::Connack, dup: false, qos: QoS::Level0, retain: false, remaining_len: 2 };
    if k >= 2 { lemma_connack_body_prefix(c, k - 2); }
    lemma_v3_prefix_of_frame(0x20u8, body, k, h);
}
//@lemma props=C07
pub proof fn lemma_v3_publish_packet_prefix(x: Publish, k: int)
    requires x.valid(), name_ok(x.topic_name.text()), qp_pid_ok(x.qos_pid), x.enc().len() < 268435456,
        0 <= k < enc_packet3(Packet::Publish(x)).len()
    ensures p3_packet(enc_packet3(Packet::Publish(x)).take(k)) == PR::<Packet, Error>::Inc
{
    let cb = pub_ctrl(x.dup, x.retain, x.qos_pid);
    let rl = x.enc().len() as u32;
    lemma_pub_ctrl_header(x.dup, x.retain, x.qos_pid, rl);
    let h = Header { typ: PacketType::Publish, dup: x.dup, qos: qos_of_qp(x.qos_pid), retain: x.retain, remaining_len: rl };
    let hl = 1 + vlen(x.enc().len());
    lemma_vlen_enc(x.enc().len());
    if k >= hl { lemma_publish_body_prefix(x, h, k - hl); }
    lemma_v3_prefix_of_frame(cb, x.enc(), k, h);
}
//@lemma props=C07
pub proof fn lemma_v3_suback_packet_prefix(x: Suback, k: int)
    requires x.pid.0 != 0, x.enc().len() < 268435456, 0 <= k < enc_packet3(Packet::Suback(x)).len()
    ensures p3_packet(enc_packet3(Packet::Suback(x)).take(k)) == PR::<Packet, Error>::Inc
{
    let rl = x.enc().len() as u32;
    let h = Header { typ: PacketType::Suback, dup: false, qos: QoS::Level0, retain: false, remaining_len: rl };
    let hl = 1 + vlen(x.enc().len());
    lemma_vlen_enc(x.enc().len());
    if k >= hl { lemma_suback_body_prefix(x, k - hl); }
    lemma_v3_prefix_of_frame(0x90u8, x.enc(), k, h);
}

// ---- SUBSCRIBE / UNSUBSCRIBE payload lists: a strict prefix is Incomplete
pub proof fn lemma_sub_items_prefix(items: Seq<(TopicFilter, QoS)>, j: int, acc: Seq<(TopicFilter, QoS)>, used: nat)
    requires sub_items_ok(items), sub_items_wf(items), 0 <= j < enc_sub_items(items).len()
    ensures p3_sub_items(enc_sub_items(items).take(j), enc_sub_items(items).len(), acc, used) == PR::<Seq<(TopicFilter, QoS)>, Error>::Inc
    decreases items.len()
{
    hide(filter_ok);
    if items.len() > 0 {
        let tf = items[0].0; let q = items[0].1; let t = tf.text();
        let tl = items.skip(1);
        lemma_enc_sub_items_front(items);
        let n1 = 2 + sbytes(t).len();
        let tail = seq![qos_byte(q)] + enc_sub_items(tl);
        assert(enc_sub_items(items) =~= enc_str(t) + tail);
        let s = enc_sub_items(items).take(j);
        if j < n1 {
            assert(s =~= enc_str(t).take(j));
            lemma_str_prefix(t, j);
        } else {
            assert(s =~= enc_str(t) + tail.take(j - n1));
            lemma_str_roundtrip(t, tail.take(j - n1));
            lemma_filter_of_text(tf);
            if j == n1 {
                assert(s.skip(n1 as int).len() == 0);
            } else {
                assert(s[n1 as int] == qos_byte(q));
                assert(qos_of(qos_byte(q)) == Ok::<QoS, Error>(q));
                lemma_sub_items_step(s, enc_sub_items(items).len(), acc, used, t, n1, tf, q);
                assert(s.skip(n1 as int + 1) =~= enc_sub_items(tl).take(j - n1 - 1));
                assert(sub_items_ok(tl) && sub_items_wf(tl)) by { assert forall|i: int| 0 <= i < tl.len() implies sbytes((#[trigger] tl[i]).0.text()).len() <= 65535 && tl[i].0.wf() by { assert(tl[i] == items[i + 1]); } }
                lemma_sub_items_prefix(tl, j - n1 - 1, acc.push((tf, q)), used + n1 + 1);
            }
        }
    }
}
//@lemma props=C07
pub proof fn lemma_subscribe_body_prefix(x: Subscribe, j: int)
    requires x.valid(), sub_items_wf(x.topics@), x.pid.0 != 0, x.topics@.len() > 0, 0 <= j < x.enc().len()
    ensures p3_subscribe(x.enc().take(j), x.enc().len()) == PR::<Subscribe, Error>::Inc
{
    let s = x.enc().take(j);
    let v = x.pid.0;
    lemma_enc_sub_items_front(x.topics@);
    if j >= 2 {
        assert(s[0] == (v / 256) as u8 && s[1] == (v % 256) as u8);
        assert(s.skip(2) =~= enc_sub_items(x.topics@).take(j - 2));
        lemma_sub_items_prefix(x.topics@, j - 2, Seq::empty(), 2);
    }
}
//@lemma props=C07
pub proof fn lemma_v3_subscribe_packet_prefix(x: Subscribe, k: int)
    requires x.valid(), sub_items_wf(x.topics@), x.pid.0 != 0, x.topics@.len() > 0, x.enc().len() < 268435456,
        0 <= k < enc_packet3(Packet::Subscribe(x)).len()
    ensures p3_packet(enc_packet3(Packet::Subscribe(x)).take(k)) == PR::<Packet, Error>::Inc
{
    let rl = x.enc().len() as u32;
    let h = Header { typ: PacketType::Subscribe, dup: false, qos: QoS::Level0, retain: false, remaining_len: rl };
    let hl = 1 + vlen(x.enc().len());
    lemma_vlen_enc(x.enc().len());
    if k >= hl { lemma_subscribe_body_prefix(x, k - hl); }
    lemma_v3_prefix_of_frame(0x82u8, x.enc(), k, h);
}
pub proof fn lemma_unsub_items_prefix(items: Seq<TopicFilter>, j: int, acc: Seq<TopicFilter>, used: nat)
    requires unsub_items_ok(items), unsub_items_wf(items), 0 <= j < enc_unsub_items(items).len()
    ensures p3_unsub_items(enc_unsub_items(items).take(j), enc_unsub_items(items).len(), acc, used) == PR::<Seq<TopicFilter>, Error>::Inc
    decreases items.len()
{
    hide(filter_ok);
    if items.len() > 0 {
        let tf = items[0]; let t = tf.text();
        let tl = items.skip(1);
        lemma_enc_unsub_items_front(items);
        let n1 = 2 + sbytes(t).len();
        let tail = enc_unsub_items(tl);
        assert(enc_unsub_items(items) =~= enc_str(t) + tail);
        let s = enc_unsub_items(items).take(j);
        if j < n1 {
            assert(s =~= enc_str(t).take(j));
            lemma_str_prefix(t, j);
        } else {
            assert(s =~= enc_str(t) + tail.take(j - n1));
            lemma_str_roundtrip(t, tail.take(j - n1));
            lemma_filter_of_text(tf);
            assert(s.skip(n1 as int) =~= tail.take(j - n1));
            assert(unsub_items_ok(tl) && unsub_items_wf(tl)) by { assert forall|i: int| 0 <= i < tl.len() implies sbytes((#[trigger] tl[i]).text()).len() <= 65535 && tl[i].wf() by { assert(tl[i] == items[i + 1]); } }
            lemma_unsub_items_prefix(tl, j - n1, acc.push(tf), used + n1);
        }
    }
}
//@lemma props=C07
pub proof fn lemma_unsubscribe_body_prefix(x: Unsubscribe, j: int)
    requires x.valid(), unsub_items_wf(x.topics@), x.pid.0 != 0, x.topics@.len() > 0, 0 <= j < x.enc().len()
    ensures p3_unsubscribe(x.enc().take(j), x.enc().len()) == PR::<Unsubscribe, Error>::Inc
{
    let s = x.enc().take(j);
    let v = x.pid.0;
    lemma_enc_unsub_items_front(x.topics@);
    if j >= 2 {
        assert(s[0] == (v / 256) as u8 && s[1] == (v % 256) as u8);
        assert(s.skip(2) =~= enc_unsub_items(x.topics@).take(j - 2));
        lemma_unsub_items_prefix(x.topics@, j - 2, Seq::empty(), 2);
    }
}
//@lemma props=C07
pub proof fn lemma_v3_unsubscribe_packet_prefix(x: Unsubscribe, k: int)
    requires x.valid(), unsub_items_wf(x.topics@), x.pid.0 != 0, x.topics@.len() > 0, x.enc().len() < 268435456,
        0 <= k < enc_packet3(Packet::Unsubscribe(x)).len()
    ensures p3_packet(enc_packet3(Packet::Unsubscribe(x)).take(k)) == PR::<Packet, Error>::Inc
{
    let rl = x.enc().len() as u32;
    let h = Header { typ: PacketType::Unsubscribe, dup: false, qos: QoS::Level0, retain: false, remaining_len: rl };
    let hl = 1 + vlen(x.enc().len());
    lemma_vlen_enc(x.enc().len());
    if k >= hl { lemma_unsubscribe_body_prefix(x, k - hl); }
    lemma_v3_prefix_of_frame(0xA2u8, x.enc(), k, h);
}

// ---- CONNECT: a strict prefix is Incomplete
pub proof fn lemma_take_cat(a: Seq<u8>, b: Seq<u8>, j: int)
    requires 0 <= j <= a.len() + b.len()
    ensures (a + b).take(j) == (if j <= a.len() { a.take(j) } else { a + b.take(j - a.len()) })
{
    if j <= a.len() { assert((a + b).take(j) =~= a.take(j)); } else { assert((a + b).take(j) =~= a + b.take(j - a.len())); }
}
pub proof fn lemma_protocol_prefix(p: Protocol, j: int)
    requires 0 <= j < p.enc().len()
    ensures p_protocol(p.enc().take(j)) == PR::<Protocol, Error>::Inc
{
    let nm = proto_name(p);
    assert(name_mqisdp().len() == 6 && name_mqtt().len() == 4);
    let lv = seq![proto_level(p)];
    lemma_take_cat(enc_bin(nm), lv, j);
    if j < 2 + nm.len() {
        lemma_bin_prefix(nm, j);
    } else {
        assert(lv.take(0) =~= Seq::<u8>::empty());
        lemma_bin_roundtrip(nm, Seq::<u8>::empty());
        assert((enc_bin(nm) + Seq::<u8>::empty()).skip(2 + nm.len() as int).len() == 0);
    }
}
pub proof fn lemma_will_prefix(w: LastWill, flags: u8, j: int)
    requires w.valid(), flags & 0b100 != 0, 0 <= j < w.enc().len()
    ensures p3_will(w.enc().take(j), flags) == PR::<Option<LastWill>, Error>::Inc
{
    let t = w.topic_name.text();
    let n1 = 2 + sbytes(t).len();
    let m = enc_bin(w.message@);
    lemma_take_cat(enc_str(t), m, j);
    if j < n1 {
        lemma_str_prefix(t, j);
    } else {
        if j == n1 { assert(enc_str(t).take(j) =~= enc_str(t) + m.take(0)); }
        assert(w.enc().take(j) == enc_str(t) + m.take(j - n1));
        lemma_str_roundtrip(t, m.take(j - n1));
        lemma_skip_concat(enc_str(t), m.take(j - n1));
        lemma_bin_prefix(w.message@, j - n1);
    }
}
pub proof fn lemma_opt_str_prefix(o: Option<Arc<String>>, j: int)
    requires o is Some, opt_str_ok(o), 0 <= j < enc_opt_str(o).len()
    ensures p3_opt_str(enc_opt_str(o).take(j), true) == PR::<Option<Arc<String>>, Error>::Inc
{
    lemma_str_prefix(o->Some_0@, j);
}
pub proof fn lemma_opt_bin_prefix(o: Option<Bytes>, j: int)
    requires o is Some, opt_bin_ok(o), 0 <= j < enc_opt_bin(o).len()
    ensures p3_opt_bin(enc_opt_bin(o).take(j), true) == PR::<Option<Bytes>, Error>::Inc
{
    lemma_bin_prefix(o->Some_0@, j);
}
/// unfolding of p3_connect_body up to the first Incomplete stage (each earlier stage's result is a hypothesis)
pub proof fn lemma_connect_body_inc1(s: Seq<u8>, protocol: Protocol)
    requires protocol != Protocol::V500, s.len() >= 3, s[0] & 1 == 0, p_str(s.skip(3)) is Inc
    ensures p3_connect_body(s, protocol) == PR::<Connect, Error>::Inc
{ hide(p3_will); hide(p3_opt_str); hide(p3_opt_bin); hide(p_str); }
pub proof fn lemma_connect_body_inc2(s: Seq<u8>, protocol: Protocol, cid: Seq<char>, n1: nat)
    requires protocol != Protocol::V500, s.len() >= 3, s[0] & 1 == 0, p_str(s.skip(3)) == PR::<Seq<char>, Error>::Ok(cid, n1),
        p3_will(s.skip(3 + n1 as int), s[0]) is Inc
    ensures p3_connect_body(s, protocol) == PR::<Connect, Error>::Inc
{ hide(p3_will); hide(p3_opt_str); hide(p3_opt_bin); hide(p_str); }
pub proof fn lemma_connect_body_inc3(s: Seq<u8>, protocol: Protocol, cid: Seq<char>, n1: nat, will: Option<LastWill>, n2: nat)
    requires protocol != Protocol::V500, s.len() >= 3, s[0] & 1 == 0, p_str(s.skip(3)) == PR::<Seq<char>, Error>::Ok(cid, n1),
        p3_will(s.skip(3 + n1 as int), s[0]) == PR::<Option<LastWill>, Error>::Ok(will, n2),
        p3_opt_str(s.skip(3 + n1 as int + n2 as int), s[0] & 0b10000000 != 0) is Inc
    ensures p3_connect_body(s, protocol) == PR::<Connect, Error>::Inc
{ hide(p3_will); hide(p3_opt_str); hide(p3_opt_bin); hide(p_str); }
pub proof fn lemma_connect_body_inc4(s: Seq<u8>, protocol: Protocol, cid: Seq<char>, n1: nat, will: Option<LastWill>, n2: nat, user: Option<Arc<String>>, n3: nat)
    requires protocol != Protocol::V500, s.len() >= 3, s[0] & 1 == 0, p_str(s.skip(3)) == PR::<Seq<char>, Error>::Ok(cid, n1),
        p3_will(s.skip(3 + n1 as int), s[0]) == PR::<Option<LastWill>, Error>::Ok(will, n2),
        p3_opt_str(s.skip(3 + n1 as int + n2 as int), s[0] & 0b10000000 != 0) == PR::<Option<Arc<String>>, Error>::Ok(user, n3),
        p3_opt_bin(s.skip(3 + n1 as int + n2 as int + n3 as int), s[0] & 0b01000000 != 0) is Inc
    ensures p3_connect_body(s, protocol) == PR::<Connect, Error>::Inc
{ hide(p3_will); hide(p3_opt_str); hide(p3_opt_bin); hide(p_str); }
pub proof fn lemma_connect_body_prefix(c: Connect, j: int)
    requires connect_wf3(c),
        0 <= j < (seq![connect_flags3(c)] + enc_u16(c.keep_alive) + enc_str(c.client_id@) + enc_will3(c) + enc_opt_str(c.username) + enc_opt_bin(c.password)).len()
    ensures ({
        let body = seq![connect_flags3(c)] + enc_u16(c.keep_alive) + enc_str(c.client_id@) + enc_will3(c) + enc_opt_str(c.username) + enc_opt_bin(c.password);
        p3_connect_body(body.take(j), c.protocol) == PR::<Connect, Error>::Inc
    })
{
    hide(connect_flags3); hide(p3_will); hide(p3_opt_str); hide(p3_opt_bin); hide(name_ok); hide(p_str); hide(p_bin); hide(p3_connect_body);
    let f = connect_flags3(c);
    lemma_connect_flags3(c);
    let pa = seq![f]; let pb = enc_u16(c.keep_alive); let pc = enc_str(c.client_id@); let pd = enc_will3(c); let pe = enc_opt_str(c.username); let pf = enc_opt_bin(c.password);
    let e = Seq::<u8>::empty();
    let t4 = pf + e; let t3 = pe + t4; let t2 = pd + t3; let t1 = pc + t2;
    let hd = pa + pb;
    let body = pa + pb + pc + pd + pe + pf;
    lemma_nest7(pa, pb, pc, pd, pe, pf, e);
    assert(body + e =~= body);
    assert(body == hd + t1);
    assert(hd.len() == 3);
    assert(t4 =~= pf);
    let s = body.take(j);
    lemma_take_cat(hd, t1, j);
    if j < 3 {
        if j >= 1 { assert(s[0] == f); }
        assert(p3_connect_body(s, c.protocol) == PR::<Connect, Error>::Inc) by { reveal(p3_connect_body); }
    } else {
        let j1 = j - 3;
        assert(s == hd + t1.take(j1)) by { if j == 3 { assert(hd.take(3) =~= hd + t1.take(0)); } }
        assert(s[0] == f) by { assert(hd[0] == f); }
        lemma_skip_concat(hd, t1.take(j1));
        assert(s.skip(3) == t1.take(j1));
        let n1 = pc.len();
        assert(n1 == 2 + sbytes(c.client_id@).len());
        lemma_take_cat(pc, t2, j1);
        if j1 < n1 {
            lemma_str_prefix(c.client_id@, j1);
            lemma_connect_body_inc1(s, c.protocol);
        } else {
            let j2 = j1 - n1;
            assert(t1.take(j1) == pc + t2.take(j2)) by { if j1 == n1 { assert(pc.take(n1 as int) =~= pc + t2.take(0)); } }
            lemma_str_roundtrip(c.client_id@, t2.take(j2));
            lemma_skip_concat(pc, t2.take(j2));
            lemma_skip_skip(s, 3, n1 as int);
            assert(s.skip(3 + n1 as int) == t2.take(j2));
            let n2 = pd.len();
            lemma_take_cat(pd, t3, j2);
            if j2 < n2 {
                // inside the will (so there is one)
                let w = c.last_will->Some_0;
                lemma_will_prefix(w, f, j2);
                lemma_connect_body_inc2(s, c.protocol, c.client_id@, n1);
            } else {
                let j3 = j2 - n2;
                assert(t2.take(j2) == pd + t3.take(j3)) by { if j2 == n2 { assert(pd.take(n2 as int) =~= pd + t3.take(0)); } }
                match c.last_will {
                    Some(w) => { lemma_will_roundtrip(w, f, t3.take(j3)); }
                    None => { assert(pd + t3.take(j3) =~= t3.take(j3)); assert(p3_will(t3.take(j3), f) == PR::<Option<LastWill>, Error>::Ok(None, 0)) by { reveal(p3_will); } }
                }
                assert(p3_will(t2.take(j2), f) == PR::<Option<LastWill>, Error>::Ok(c.last_will, n2));
                lemma_skip_concat(pd, t3.take(j3));
                lemma_skip_skip(s, 3 + n1 as int, n2 as int);
                assert(s.skip(3 + n1 as int + n2 as int) == t3.take(j3));
                let n3 = pe.len();
                lemma_take_cat(pe, t4, j3);
                if j3 < n3 {
                    lemma_opt_str_prefix(c.username, j3);
                    lemma_connect_body_inc3(s, c.protocol, c.client_id@, n1, c.last_will, n2);
                } else {
                    let j4 = j3 - n3;
                    assert(t3.take(j3) == pe + t4.take(j4)) by { if j3 == n3 { assert(pe.take(n3 as int) =~= pe + t4.take(0)); } }
                    lemma_opt_str_roundtrip(c.username, t4.take(j4));
                    lemma_skip_concat(pe, t4.take(j4));
                    lemma_skip_skip(s, 3 + n1 as int + n2 as int, n3 as int);
                    assert(s.skip(3 + n1 as int + n2 as int + n3 as int) == t4.take(j4));
                    // j < |body| leaves a strict prefix of the password
                    assert(j4 < pf.len());
                    assert(t4.take(j4) =~= pf.take(j4));
                    lemma_opt_bin_prefix(c.password, j4);
                    lemma_connect_body_inc4(s, c.protocol, c.client_id@, n1, c.last_will, n2, c.username, n3);
                }
            }
        }
    }
}
//@lemma props=C07
pub proof fn lemma_connect_prefix(c: Connect, j: int)
    requires connect_wf3(c), 0 <= j < c.enc().len()
    ensures p3_connect(c.enc().take(j)) == PR::<Connect, Error>::Inc
{
    hide(p3_connect_body); hide(connect_flags3); hide(p_protocol);
    let body = seq![connect_flags3(c)] + enc_u16(c.keep_alive) + enc_str(c.client_id@) + enc_will3(c) + enc_opt_str(c.username) + enc_opt_bin(c.password);
    let pe = c.protocol.enc();
    assert(c.enc() =~= pe + body);
    lemma_take_cat(pe, body, j);
    if j < pe.len() {
        lemma_protocol_prefix(c.protocol, j);
    } else {
        let jb = j - pe.len();
        assert(c.enc().take(j) == pe + body.take(jb)) by { if j == pe.len() { assert(pe.take(j) =~= pe + body.take(0)); } }
        lemma_protocol_roundtrip(c.protocol, body.take(jb));
        lemma_skip_concat(pe, body.take(jb));
        lemma_connect_body_prefix(c, jb);
    }
}
//@lemma props=C07
pub proof fn lemma_v3_connect_packet_prefix(c: Connect, k: int)
    requires connect_wf3(c), c.enc().len() < 268435456, 0 <= k < enc_packet3(Packet::Connect(c)).len()
    ensures p3_packet(enc_packet3(Packet::Connect(c)).take(k)) == PR::<Packet, Error>::Inc
{
    hide(p3_connect); hide(connect_flags3);
    let rl = c.enc().len() as u32;
    let h = Header { typ: PacketType::Connect, dup: false, qos: QoS::Level0, retain: false, remaining_len: rl };
    let hl = 1 + vlen(c.enc().len());
    lemma_vlen_enc(c.enc().len());
    if k >= hl { lemma_connect_prefix(c, k - hl); }
    lemma_v3_prefix_of_frame(0x10u8, c.enc(), k, h);
}

// ===================================================================
// C08 at spec level: a stream of back-to-back v3 packets is framed without loss or overlap.
// Reading one packet at a time and advancing by the reported length returns exactly the packets that were
// encoded, in order; the lengths add up to the stream length; what follows the last packet is left untouched
// (`rest`), and on an exhausted stream the next read reports Incomplete (end of input), never an error.
// ===================================================================
pub open spec fn rt_ok3(p: Packet) -> bool {
    match p {
        Packet::Pingreq => true, Packet::Pingresp => true, Packet::Disconnect => true,
        Packet::Connack(_) => true,
        Packet::Puback(x) => x.0 != 0, Packet::Pubrec(x) => x.0 != 0, Packet::Pubrel(x) => x.0 != 0, Packet::Pubcomp(x) => x.0 != 0,
        Packet::Unsuback(x) => x.0 != 0,
        Packet::Publish(x) => x.valid() && name_ok(x.topic_name.text()) && qp_pid_ok(x.qos_pid) && x.enc().len() < 268435456,
        Packet::Subscribe(x) => x.valid() && sub_items_wf(x.topics@) && x.pid.0 != 0 && x.topics@.len() > 0 && x.enc().len() < 268435456,
        Packet::Unsubscribe(x) => x.valid() && unsub_items_wf(x.topics@) && x.pid.0 != 0 && x.topics@.len() > 0 && x.enc().len() < 268435456,
        Packet::Suback(x) => x.valid() && x.pid.0 != 0 && x.enc().len() < 268435456,
        Packet::Connect(c) => connect_wf3(c) && c.enc().len() < 268435456,
    }
}
//@lemma props=C01,C07,C08,C10,C11
pub proof fn lemma_v3_any_packet(p: Packet, rest: Seq<u8>)
    requires rt_ok3(p)
    ensures p3_packet(enc_packet3(p) + rest) == PR::<Packet, Error>::Ok(p, enc_packet3(p).len()), enc_packet3(p).len() >= 2
{
    hide(p3_packet); hide(name_ok); hide(connect_wf3); hide(sub_items_wf); hide(unsub_items_wf); hide(qp_pid_ok);
    match p {
        Packet::Pingreq => { lemma_v3_bodyless(0xC0u8, rest); }
        Packet::Pingresp => { lemma_v3_bodyless(0xD0u8, rest); }
        Packet::Disconnect => { lemma_v3_bodyless(0xE0u8, rest); }
        Packet::Connack(c) => { lemma_v3_connack_packet(c, rest); }
        Packet::Puback(x) => { lemma_v3_pid_packet(0x40u8, x, rest); }
        Packet::Pubrec(x) => { lemma_v3_pid_packet(0x50u8, x, rest); }
        Packet::Pubrel(x) => { lemma_v3_pid_packet(0x62u8, x, rest); }
        Packet::Pubcomp(x) => { lemma_v3_pid_packet(0x70u8, x, rest); }
        Packet::Unsuback(x) => { lemma_v3_pid_packet(0xB0u8, x, rest); }
        Packet::Publish(x) => { lemma_v3_publish_packet(x, rest); }
        Packet::Subscribe(x) => { lemma_v3_subscribe_packet(x, rest); }
        Packet::Unsubscribe(x) => { lemma_v3_unsubscribe_packet(x, rest); }
        Packet::Suback(x) => { lemma_v3_suback_packet(x, rest); }
        Packet::Connect(c) => { lemma_v3_connect_packet(c, rest); }
    }
}
pub open spec fn enc_stream3(ps: Seq<Packet>) -> Seq<u8>
    decreases ps.len()
{
    if ps.len() == 0 { Seq::empty() } else { enc_packet3(ps[0]) + enc_stream3(ps.skip(1)) }
}
/// the reader: decode `n` packets one after the other, each time advancing by the length the decoder reports
pub open spec fn p3_stream(s: Seq<u8>, n: nat) -> Option<(Seq<Packet>, nat)>
    decreases n
{
    if n == 0 { Some((Seq::empty(), 0nat)) }
    else { match p3_packet(s) {
        PR::Ok(p, k) => if k > s.len() { None } else { match p3_stream(s.skip(k as int), (n - 1) as nat) {
            Some((tl, m)) => Some((seq![p] + tl, k + m)),
            None => None } },
        _ => None } }
}
pub open spec fn all_rt_ok3(ps: Seq<Packet>) -> bool { forall|i: int| 0 <= i < ps.len() ==> rt_ok3(#[trigger] ps[i]) }
//@lemma props=C08
pub proof fn lemma_v3_stream_framing(ps: Seq<Packet>, rest: Seq<u8>)
    requires all_rt_ok3(ps)
    ensures p3_stream(enc_stream3(ps) + rest, ps.len()) == Some((ps, enc_stream3(ps).len())),
            (enc_stream3(ps) + rest).skip(enc_stream3(ps).len() as int) =~= rest,
    decreases ps.len()
{
    hide(p3_packet); hide(enc_packet3); hide(rt_ok3);
    if ps.len() == 0 {
        assert(Seq::<Packet>::empty() =~= ps);
    } else {
        let p = ps[0]; let tl = ps.skip(1);
        let e = enc_packet3(p); let et = enc_stream3(tl);
        let s = enc_stream3(ps) + rest;
        assert(s =~= e + (et + rest));
        lemma_v3_any_packet(p, et + rest);
        assert(s.skip(e.len() as int) =~= et + rest);
        assert(all_rt_ok3(tl)) by { assert forall|i: int| 0 <= i < tl.len() implies rt_ok3(#[trigger] tl[i]) by { assert(tl[i] == ps[i + 1]); } }
        lemma_v3_stream_framing(tl, rest);
        assert(seq![p] + tl =~= ps);
    }
}
//@lemma props=C07,C08
pub proof fn lemma_v3_end_of_input()
    ensures p3_packet(Seq::<u8>::empty()) == PR::<Packet, Error>::Inc
{ }
