// ===================================================================
// SPEC-LEVEL COMPOSITION LEMMAS (no executable code): the decoder spec inverts the encoder spec.
// Together with "encoder writes enc_X" and "decoder == p_X" (proved on the real functions) these give
// the round-trip / prefix / trailing-bytes statements of C01, C07, C08, C11 for the covered types.
// ===================================================================

//@lemma props=C01,C07,C08,C10
pub proof fn lemma_u16_roundtrip(v: u16, rest: Seq<u8>)
    ensures p_u16(enc_u16(v) + rest) == PR::<u16, Error>::Ok(v, 2)
{
    let s = enc_u16(v) + rest;
    assert(s[0] == (v / 256) as u8 && s[1] == (v % 256) as u8);
}

//@lemma props=C01,C07,C08,C10
pub proof fn lemma_u32_roundtrip(v: u32, rest: Seq<u8>)
    ensures p_u32(enc_u32(v) + rest) == PR::<u32, Error>::Ok(v, 4)
{
    let s = enc_u32(v) + rest;
    assert(s[0] == (v / 16777216) as u8 && s[1] == ((v / 65536) % 256) as u8 && s[2] == ((v / 256) % 256) as u8 && s[3] == (v % 256) as u8);
}

//@lemma props=C01,C07,C08,C10
pub proof fn lemma_bin_roundtrip(b: Seq<u8>, rest: Seq<u8>)
    requires b.len() <= 65535
    ensures p_bin(enc_bin(b) + rest) == PR::<Seq<u8>, Error>::Ok(b, 2 + b.len())
{
    let s = enc_bin(b) + rest;
    let v = b.len() as u16;
    assert(s[0] == (v / 256) as u8 && s[1] == (v % 256) as u8);
    assert(s.subrange(2, 2 + b.len() as int) =~= b);
}

//@lemma props=C01,C07,C08,C10,C12
pub proof fn lemma_str_roundtrip(t: Seq<char>, rest: Seq<u8>)
    requires sbytes(t).len() <= 65535
    ensures p_str(enc_str(t) + rest) == PR::<Seq<char>, Error>::Ok(t, 2 + sbytes(t).len())
{
    lemma_bin_roundtrip(sbytes(t), rest);
    vstd::utf8::encode_utf8_valid_utf8(t);
    vstd::utf8::encode_utf8_decode_utf8(t);
}

// ---- every strict prefix of a primitive's encoding is Incomplete (never an error, never a value)
//@lemma props=C07
pub proof fn lemma_bin_prefix(b: Seq<u8>, k: int)
    requires b.len() <= 65535, 0 <= k < 2 + b.len()
    ensures p_bin(enc_bin(b).take(k)) == PR::<Seq<u8>, Error>::Inc
{
    let s = enc_bin(b).take(k);
    let v = b.len() as u16;
    if k >= 2 { assert(s[0] == (v / 256) as u8 && s[1] == (v % 256) as u8); }
}

//@lemma props=C07
pub proof fn lemma_str_prefix(t: Seq<char>, k: int)
    requires sbytes(t).len() <= 65535, 0 <= k < 2 + sbytes(t).len()
    ensures p_str(enc_str(t).take(k)) == PR::<Seq<char>, Error>::Inc
{
    lemma_bin_prefix(sbytes(t), k);
}

//@lemma props=C07,C15
pub proof fn lemma_varint_prefix(n: nat, k: int)
    requires n < 268435456, 0 <= k < vlen(n)
    ensures p_varint(enc_varint(n).take(k)) == PR::<u32, Error>::Inc
{
    reveal_with_fuel(enc_varint, 5);
    reveal_with_fuel(p_varint_from, 5);
    lemma_vlen_enc(n);
    let s = enc_varint(n).take(k);
    if k >= 1 {
        assert(s[0] == ((n % 128) + 128) as u8);
        let s1 = s.skip(1);
        if k >= 2 {
            assert(s1[0] == (((n / 128) % 128) + 128) as u8);
            let s2 = s1.skip(1);
            if k >= 3 { assert(s2[0] == (((n / 128 / 128) % 128) + 128) as u8); }
        }
    }
}

// ---- v3 SUBACK (3.9): round trip for every list of return codes
pub proof fn lemma_codes_roundtrip(cs: Seq<SubscribeReturnCode>, rest: Seq<u8>, acc: Seq<SubscribeReturnCode>, used: nat)
    ensures p3_codes(enc_codes(cs) + rest, cs.len(), acc, used) == PR::<Seq<SubscribeReturnCode>, Error>::Ok(acc + cs, used + cs.len())
    decreases cs.len()
{
    reveal_with_fuel(p3_codes, 2);
    if cs.len() == 0 {
        assert(acc + cs =~= acc);
    } else {
        let s = enc_codes(cs) + rest;
        assert(s[0] == src_byte(cs[0]));
        assert(src_of(src_byte(cs[0])) == Ok::<SubscribeReturnCode, Error>(cs[0]));
        assert(s.skip(1) =~= enc_codes(cs.skip(1)) + rest);
        lemma_codes_roundtrip(cs.skip(1), rest, acc.push(cs[0]), used + 1);
        assert(acc.push(cs[0]) + cs.skip(1) =~= acc + cs);
    }
}

//@lemma props=C01,C07,C08,C10,C11
pub proof fn lemma_suback_roundtrip(x: Suback, rest: Seq<u8>)
    requires x.pid.0 != 0
    ensures p3_suback(x.enc() + rest, x.enc().len()) == PR::<Suback, Error>::Ok(x, x.enc().len())
{
    broadcast use group_ext;
    let s = x.enc() + rest;
    let v = x.pid.0;
    assert(s[0] == (v / 256) as u8 && s[1] == (v % 256) as u8);
    assert(s.skip(2) =~= enc_codes(x.topics@) + rest);
    lemma_codes_roundtrip(x.topics@, rest, Seq::empty(), 2);
    assert(Seq::<SubscribeReturnCode>::empty() + x.topics@ =~= x.topics@);
}

// ---- v3 CONNACK (3.2) and the packets that carry only a packet identifier (3.4-3.7, 3.11)
//@lemma props=C01,C07,C08,C10,C11
pub proof fn lemma_connack_roundtrip(c: Connack, rest: Seq<u8>)
    ensures p3_connack(seq![b2u3(c.session_present), crc_byte(c.code)] + rest) == PR::<Connack, Error>::Ok(c, 2)
{
    let s = seq![b2u3(c.session_present), crc_byte(c.code)] + rest;
    assert(s[0] == b2u3(c.session_present) && s[1] == crc_byte(c.code));
}
pub open spec fn b2u3(b: bool) -> u8 { if b { 1u8 } else { 0u8 } }

//@lemma props=C01,C07,C08,C10,C11
pub proof fn lemma_pid_roundtrip(p: Pid, rest: Seq<u8>)
    requires p.0 != 0
    ensures p3_pid(enc_u16(p.0) + rest) == PR::<Pid, Error>::Ok(p, 2)
{
    let s = enc_u16(p.0) + rest;
    assert(s[0] == (p.0 / 256) as u8 && s[1] == (p.0 % 256) as u8);
}

// ---- whole v3 packets with fixed shape: p3_packet(enc_packet3(p) + rest) == p  (framing: trailing bytes ignored)
pub proof fn lemma_raw_header_small(cb: u8, rl: u8, x: Seq<u8>)
    requires rl < 128
    ensures p_raw_header(seq![cb, rl] + x) == PR::<(u8, u32), Error>::Ok((cb, rl as u32), 2)
{
    reveal_with_fuel(p_varint_from, 2);
    let s = seq![cb, rl] + x;
    assert(s[0] == cb && s.skip(1)[0] == rl);
}
//@lemma props=C01,C06,C07,C08,C10,C11
pub proof fn lemma_v3_bodyless(cb: u8, rest: Seq<u8>)
    requires cb == 0xC0u8 || cb == 0xD0u8 || cb == 0xE0u8
    ensures p3_packet(seq![cb, 0u8] + rest) == PR::<Packet, Error>::Ok(if cb == 0xC0u8 { Packet::Pingreq } else if cb == 0xD0u8 { Packet::Pingresp } else { Packet::Disconnect }, 2)
{
    lemma_raw_header_small(cb, 0, rest);
}
//@lemma props=C01,C06,C07,C08,C10,C11
pub proof fn lemma_v3_pid_packet(cb: u8, x: Pid, rest: Seq<u8>)
    requires x.0 != 0, cb == 0x40u8 || cb == 0x50u8 || cb == 0x62u8 || cb == 0x70u8 || cb == 0xB0u8
    ensures p3_packet(with_pid(cb, x) + rest) == PR::<Packet, Error>::Ok(
        if cb == 0x40u8 { Packet::Puback(x) } else if cb == 0x50u8 { Packet::Pubrec(x) } else if cb == 0x62u8 { Packet::Pubrel(x) } else if cb == 0x70u8 { Packet::Pubcomp(x) } else { Packet::Unsuback(x) }, 4)
{
    let s = with_pid(cb, x) + rest;
    assert(s =~= seq![cb, 2u8] + (enc_u16(x.0) + rest));
    lemma_raw_header_small(cb, 2, enc_u16(x.0) + rest);
    assert(s.skip(2) =~= enc_u16(x.0) + rest);
    lemma_pid_roundtrip(x, rest);
}
//@lemma props=C01,C06,C07,C08,C10,C11
pub proof fn lemma_v3_connack_packet(c: Connack, rest: Seq<u8>)
    ensures p3_packet(enc_packet3(Packet::Connack(c)) + rest) == PR::<Packet, Error>::Ok(Packet::Connack(c), 4)
{
    let body = seq![b2u3(c.session_present), crc_byte(c.code)];
    let s = enc_packet3(Packet::Connack(c)) + rest;
    assert(s =~= seq![0x20u8, 2u8] + (body + rest));
    lemma_raw_header_small(0x20u8, 2, body + rest);
    assert(s.skip(2) =~= body + rest);
    lemma_connack_roundtrip(c, rest);
}
