// ===================================================================
// SPEC LAYER — wire primitives (MQTT 3.1.1 §1.5, MQTT 5.0 §1.5), written from the standards.
// Pure `spec fn`s: the oracle the real functions are proved against.
// ===================================================================

/// parse result: value and number of bytes consumed | input ends too early | protocol error
pub enum PR<T, E> { Ok(T, nat), Inc, Err(E) }

pub open spec fn is_io(e: Error, k: io::ErrorKind) -> bool { e matches Error::IoError(kk, _) && kk == k }

// ---- fixed-width integers, big-endian (§1.5.2, §1.5.3)
pub open spec fn p_u8(s: Seq<u8>) -> PR<u8, Error> {
    if s.len() >= 1 { PR::Ok(s[0], 1) } else { PR::Inc }
}
pub open spec fn p_u16(s: Seq<u8>) -> PR<u16, Error> {
    if s.len() >= 2 { PR::Ok(be16(s[0], s[1]), 2) } else { PR::Inc }
}
pub open spec fn p_u32(s: Seq<u8>) -> PR<u32, Error> {
    if s.len() >= 4 { PR::Ok(be32(s[0], s[1], s[2], s[3]), 4) } else { PR::Inc }
}

// ---- binary data: two-byte length then that many bytes (§1.5.6)
pub open spec fn enc_bin(b: Seq<u8>) -> Seq<u8> { enc_u16(b.len() as u16) + b }
pub open spec fn p_bin(s: Seq<u8>) -> PR<Seq<u8>, Error> {
    if s.len() < 2 { PR::Inc }
    else {
        let n = be16(s[0], s[1]) as int;
        if s.len() < 2 + n { PR::Inc } else { PR::Ok(s.subrange(2, 2 + n), (2 + n) as nat) }
    }
}
// ---- UTF-8 string: binary data that must be well-formed UTF-8 (§1.5.4)
pub open spec fn enc_str(s: Seq<char>) -> Seq<u8> { enc_bin(sbytes(s)) }
pub open spec fn p_str(s: Seq<u8>) -> PR<Seq<char>, Error> {
    match p_bin(s) {
        PR::Ok(b, n) => if vstd::utf8::valid_utf8(b) { PR::Ok(vstd::utf8::decode_utf8(b), n) } else { PR::Err(Error::InvalidString) },
        PR::Inc => PR::Inc,
        PR::Err(e) => PR::Err(e),
    }
}

// ---- variable byte integer (§1.5.5 / 3.1.1 §2.2.3): 7 bits per byte, least significant group first,
//      continuation bit 0x80, at most four bytes
pub open spec fn pow128(i: nat) -> nat {
    if i == 0 { 1 } else if i == 1 { 128 } else if i == 2 { 16384 } else if i == 3 { 2097152 } else { 268435456 }
}
pub open spec fn enc_varint(n: nat) -> Seq<u8>
    decreases n
{
    if n < 128 { seq![n as u8] } else { seq![((n % 128) + 128) as u8] + enc_varint(n / 128) }
}
pub open spec fn vlen(n: nat) -> nat {
    if n < 128 { 1 } else if n < 16384 { 2 } else if n < 2097152 { 3 } else { 4 }
}
pub const VARINT_LIMIT: usize = 268435456;

/// reader: `i` groups already consumed, `acc` their value
pub open spec fn p_varint_from(s: Seq<u8>, i: nat, acc: nat) -> PR<u32, Error>
    decreases 4 - i
{
    if i >= 4 { PR::Err(Error::InvalidVarByteInt) }
    else if s.len() == 0 { PR::Inc }
    else {
        let b = s[0];
        let acc2 = acc + (b % 128) as nat * pow128(i);
        if b < 128 { PR::Ok(acc2 as u32, 1) }
        else if i == 3 { PR::Err(Error::InvalidVarByteInt) }
        else { match p_varint_from(s.skip(1), i + 1, acc2) {
            PR::Ok(v, n) => PR::Ok(v, n + 1),
            PR::Inc => PR::Inc,
            PR::Err(e) => PR::Err(e),
        } }
    }
}
pub open spec fn p_varint(s: Seq<u8>) -> PR<u32, Error> { p_varint_from(s, 0, 0) }

// ---- fixed header: control byte then remaining length (§2.1)
pub open spec fn p_raw_header(s: Seq<u8>) -> PR<(u8, u32), Error> {
    if s.len() < 1 { PR::Inc }
    else { match p_varint(s.skip(1)) {
        PR::Ok(v, n) => PR::Ok((s[0], v), n + 1),
        PR::Inc => PR::Inc,
        PR::Err(e) => PR::Err(e),
    } }
}

// ---- lemmas about the primitives
pub proof fn lemma_vlen_enc(n: nat)
    requires n < 268435456
    ensures enc_varint(n).len() == vlen(n)
    decreases n
{
    reveal_with_fuel(enc_varint, 5);
}

pub proof fn lemma_varint_roundtrip(n: nat, rest: Seq<u8>)
    requires n < 268435456
    ensures p_varint(enc_varint(n) + rest) == PR::<u32, Error>::Ok(n as u32, vlen(n))
{
    reveal_with_fuel(enc_varint, 5);
    reveal_with_fuel(p_varint_from, 5);
    let s = enc_varint(n) + rest;
    if n < 128 {
        assert(s[0] == n as u8);
    } else if n < 16384 {
        let s1 = s.skip(1);
        assert(s[0] == ((n % 128) + 128) as u8);
        assert(s1[0] == (n / 128) as u8);
    } else if n < 2097152 {
        let s1 = s.skip(1); let s2 = s1.skip(1);
        assert(s[0] == ((n % 128) + 128) as u8);
        assert(s1[0] == (((n / 128) % 128) + 128) as u8);
        assert(s2[0] == (n / 128 / 128) as u8);
    } else {
        let s1 = s.skip(1); let s2 = s1.skip(1); let s3 = s2.skip(1);
        assert(s[0] == ((n % 128) + 128) as u8);
        assert(s1[0] == (((n / 128) % 128) + 128) as u8);
        assert(s2[0] == (((n / 128 / 128) % 128) + 128) as u8);
        assert(s3[0] == (n / 128 / 128 / 128) as u8);
    }
}
