// spec helpers for the v5 error type
pub open spec fn pr_map_err<T>(p: PR<T, Error>) -> PR<T, ErrorV5> {
    match p { PR::Ok(v, n) => PR::Ok(v, n), PR::Inc => PR::Inc, PR::Err(e) => PR::Err(ErrorV5::Common(e)) }
}

pub open spec fn is_io5(e: ErrorV5, k: io::ErrorKind) -> bool { e matches ErrorV5::Common(c) && is_io(c, k) }
