// ===================================================================
// SPEC LAYER — MQTT 5.0 §2.2.2 properties: wire form of one property by data type (Table 2-4),
// user property lists, and the helpers shared by the 14 property sets.
// Identifier numbers are passed as literals by the per-set specs (typed from Table 2-4).
// ===================================================================

pub open spec fn b2u(b: bool) -> u8 { if b { 1u8 } else { 0u8 } }

// ---- encoding of one optional property, by wire type
pub open spec fn prop_bool(id: u8, v: Option<bool>) -> Seq<u8> { match v { Some(b) => seq![id, b2u(b)], None => Seq::empty() } }
pub open spec fn prop_qos(id: u8, v: Option<QoS>) -> Seq<u8> { match v { Some(q) => seq![id, qos_byte(q)], None => Seq::empty() } }
pub open spec fn prop_u16(id: u8, v: Option<u16>) -> Seq<u8> { match v { Some(x) => seq![id] + enc_u16(x), None => Seq::empty() } }
pub open spec fn prop_u32(id: u8, v: Option<u32>) -> Seq<u8> { match v { Some(x) => seq![id] + enc_u32(x), None => Seq::empty() } }
pub open spec fn prop_str(id: u8, v: Option<Arc<String>>) -> Seq<u8> { match v { Some(s) => seq![id] + enc_str(s@), None => Seq::empty() } }
pub open spec fn prop_topic(id: u8, v: Option<TopicName>) -> Seq<u8> { match v { Some(t) => seq![id] + enc_str(t.text()), None => Seq::empty() } }
pub open spec fn prop_bin(id: u8, v: Option<Bytes>) -> Seq<u8> { match v { Some(b) => seq![id] + enc_bin(b@), None => Seq::empty() } }
pub open spec fn prop_varint(id: u8, v: Option<VarByteInt>) -> Seq<u8> { match v { Some(x) => seq![id] + enc_varint(x.0 as nat), None => Seq::empty() } }

pub open spec fn str_ok(v: Option<Arc<String>>) -> bool { match v { Some(s) => sbytes(s@).len() <= 65535, None => true } }
pub open spec fn topic_ok(v: Option<TopicName>) -> bool { match v { Some(t) => sbytes(t.text()).len() <= 65535, None => true } }
pub open spec fn bin_ok(v: Option<Bytes>) -> bool { match v { Some(b) => b@.len() <= 65535, None => true } }
pub open spec fn varint_ok(v: Option<VarByteInt>) -> bool { match v { Some(x) => x.0 < 268435456, None => true } }

// ---- user properties (0x26, UTF-8 string pair; may repeat, order preserved)
pub open spec fn enc_up(u: UserProperty) -> Seq<u8> { seq![0x26u8] + enc_str(u.name@) + enc_str(u.value@) }
pub open spec fn enc_ups(s: Seq<UserProperty>) -> Seq<u8>
    decreases s.len()
{
    if s.len() == 0 { Seq::empty() } else { enc_ups(s.drop_last()) + enc_up(s.last()) }
}
/// the crate's accounting: 4 + |name| + |value| per entry (plus one id byte per entry added separately)
pub open spec fn ups_sum4(s: Seq<UserProperty>) -> nat
    decreases s.len()
{
    if s.len() == 0 { 0 } else { ups_sum4(s.drop_last()) + 4 + sbytes(s.last().name@).len() + sbytes(s.last().value@).len() }
}
pub open spec fn ups_ok(s: Seq<UserProperty>) -> bool {
    forall|i: int| 0 <= i < s.len() ==> sbytes((#[trigger] s[i]).name@).len() <= 65535 && sbytes(s[i].value@).len() <= 65535
}
pub proof fn lemma_ups_len(s: Seq<UserProperty>)
    ensures enc_ups(s).len() == s.len() + ups_sum4(s)
    decreases s.len()
{
    if s.len() > 0 { lemma_ups_len(s.drop_last()); }
}
pub proof fn lemma_ups_take(s: Seq<UserProperty>, i: int)
    requires 0 <= i < s.len()
    ensures
        enc_ups(s.take(i + 1)) == enc_ups(s.take(i)) + enc_up(s[i]),
        ups_sum4(s.take(i + 1)) == ups_sum4(s.take(i)) + 4 + sbytes(s[i].name@).len() + sbytes(s[i].value@).len(),
{
    assert(s.take(i + 1).drop_last() =~= s.take(i));
    assert(s.take(i + 1).last() == s[i]);
}
pub proof fn lemma_ups_mono(s: Seq<UserProperty>, i: int)
    requires 0 <= i <= s.len()
    ensures ups_sum4(s.take(i)) <= ups_sum4(s), enc_ups(s.take(i)).len() <= enc_ups(s).len()
    decreases s.len() - i
{
    if i < s.len() {
        lemma_ups_mono(s, i + 1);
        lemma_ups_take(s, i);
    } else {
        assert(s.take(i) =~= s);
    }
}

/// a property section: Property Length (variable byte integer) then the properties
pub open spec fn enc_section(body: Seq<u8>) -> Seq<u8> { enc_varint(body.len()) + body }

// ---- accumulator form: exactly the terms the writer builds (left-nested appends), so that the code-side
//      invariants are syntactic equalities; one lemma per set relates them to `acc + enc`
pub open spec fn put_bool(acc: Seq<u8>, id: u8, v: Option<bool>) -> Seq<u8> { match v { Some(b) => (acc + enc_u8(id)) + enc_u8(b2u(b)), None => acc } }
pub open spec fn put_qos(acc: Seq<u8>, id: u8, v: Option<QoS>) -> Seq<u8> { match v { Some(q) => (acc + enc_u8(id)) + enc_u8(qos_byte(q)), None => acc } }
pub open spec fn put_u16(acc: Seq<u8>, id: u8, v: Option<u16>) -> Seq<u8> { match v { Some(x) => (acc + enc_u8(id)) + enc_u16(x), None => acc } }
pub open spec fn put_u32(acc: Seq<u8>, id: u8, v: Option<u32>) -> Seq<u8> { match v { Some(x) => (acc + enc_u8(id)) + enc_u32(x), None => acc } }
pub open spec fn put_str(acc: Seq<u8>, id: u8, v: Option<Arc<String>>) -> Seq<u8> { match v { Some(s) => (acc + enc_u8(id)) + enc_bin(sbytes(s@)), None => acc } }
pub open spec fn put_topic(acc: Seq<u8>, id: u8, v: Option<TopicName>) -> Seq<u8> { match v { Some(t) => (acc + enc_u8(id)) + enc_bin(sbytes(t.text())), None => acc } }
pub open spec fn put_bin(acc: Seq<u8>, id: u8, v: Option<Bytes>) -> Seq<u8> { match v { Some(b) => (acc + enc_u8(id)) + enc_bin(b@), None => acc } }
pub open spec fn put_varint(acc: Seq<u8>, id: u8, v: Option<VarByteInt>) -> Seq<u8> { match v { Some(x) => (acc + enc_u8(id)) + enc_varint(x.0 as nat), None => acc } }

pub proof fn lemma_put(acc: Seq<u8>, id: u8)
    ensures
        forall|v: Option<bool>| #[trigger] put_bool(acc, id, v) =~= acc + prop_bool(id, v),
        forall|v: Option<QoS>| #[trigger] put_qos(acc, id, v) =~= acc + prop_qos(id, v),
        forall|v: Option<u16>| #[trigger] put_u16(acc, id, v) =~= acc + prop_u16(id, v),
        forall|v: Option<u32>| #[trigger] put_u32(acc, id, v) =~= acc + prop_u32(id, v),
        forall|v: Option<Arc<String>>| #[trigger] put_str(acc, id, v) =~= acc + prop_str(id, v),
        forall|v: Option<TopicName>| #[trigger] put_topic(acc, id, v) =~= acc + prop_topic(id, v),
        forall|v: Option<Bytes>| #[trigger] put_bin(acc, id, v) =~= acc + prop_bin(id, v),
        forall|v: Option<VarByteInt>| #[trigger] put_varint(acc, id, v) =~= acc + prop_varint(id, v),
{
}

pub open spec fn ups_acc(acc: Seq<u8>, s: Seq<UserProperty>) -> Seq<u8>
    decreases s.len()
{
    if s.len() == 0 { acc }
    else { ((ups_acc(acc, s.drop_last()) + enc_u8(0x26u8)) + enc_bin(sbytes(s.last().name@))) + enc_bin(sbytes(s.last().value@)) }
}
pub proof fn lemma_ups_acc(acc: Seq<u8>, s: Seq<UserProperty>)
    ensures ups_acc(acc, s) =~= acc + enc_ups(s)
    decreases s.len()
{
    if s.len() > 0 { lemma_ups_acc(acc, s.drop_last()); }
}
pub proof fn lemma_ups_acc_take(acc: Seq<u8>, s: Seq<UserProperty>, i: int)
    requires 0 <= i < s.len()
    ensures ups_acc(acc, s.take(i + 1)) == ((ups_acc(acc, s.take(i)) + enc_u8(0x26u8)) + enc_bin(sbytes(s[i].name@))) + enc_bin(sbytes(s[i].value@))
{
    assert(s.take(i + 1).drop_last() =~= s.take(i));
    assert(s.take(i + 1).last() == s[i]);
}

// ===================================================================
// decoding of one property value, by wire type (MQTT 5.0 §2.2.2.2; "it is a Protocol Error to include X more than
// once" -> DuplicatedProperty; Byte properties with values other than 0/1 -> InvalidByteProperty)
// ===================================================================
pub open spec fn step_bool(s: Seq<u8>, id: PropertyId, cur: Option<bool>) -> PR<bool, ErrorV5> {
    if cur is Some { PR::Err(ErrorV5::DuplicatedProperty(id)) }
    else if s.len() < 1 { PR::Inc }
    else if s[0] > 1 { PR::Err(ErrorV5::InvalidByteProperty(id, s[0])) }
    else { PR::Ok(s[0] == 1, 1) }
}
pub open spec fn step_qos(s: Seq<u8>, id: PropertyId, cur: Option<QoS>) -> PR<QoS, ErrorV5> {
    if cur is Some { PR::Err(ErrorV5::DuplicatedProperty(id)) }
    else if s.len() < 1 { PR::Inc }
    else if s[0] > 1 { PR::Err(ErrorV5::InvalidByteProperty(id, s[0])) }
    else { PR::Ok(if s[0] == 0 { QoS::Level0 } else { QoS::Level1 }, 1) }
}
pub open spec fn step_u16(s: Seq<u8>, id: PropertyId, cur: Option<u16>) -> PR<u16, ErrorV5> {
    if cur is Some { PR::Err(ErrorV5::DuplicatedProperty(id)) } else { pr_map_err(p_u16(s)) }
}
pub open spec fn step_u32(s: Seq<u8>, id: PropertyId, cur: Option<u32>) -> PR<u32, ErrorV5> {
    if cur is Some { PR::Err(ErrorV5::DuplicatedProperty(id)) } else { pr_map_err(p_u32(s)) }
}
pub open spec fn step_str(s: Seq<u8>, id: PropertyId, cur: Option<Arc<String>>) -> PR<Arc<String>, ErrorV5> {
    if cur is Some { PR::Err(ErrorV5::DuplicatedProperty(id)) }
    else { match p_str(s) { PR::Inc => PR::Inc, PR::Err(e) => PR::Err(ErrorV5::Common(e)), PR::Ok(v, n) => PR::Ok(Arc::new(mk_string(v)), n) } }
}
pub open spec fn step_topic(s: Seq<u8>, id: PropertyId, cur: Option<TopicName>) -> PR<TopicName, ErrorV5> {
    if cur is Some { PR::Err(ErrorV5::DuplicatedProperty(id)) }
    else { match p_str(s) { PR::Inc => PR::Inc, PR::Err(e) => PR::Err(ErrorV5::Common(e)),
        PR::Ok(v, n) => match topic_name_of(v) { Ok(t) => PR::Ok(t, n), Err(_e) => PR::Err(ErrorV5::InvalidResponseTopic) } } }
}
pub open spec fn step_bin(s: Seq<u8>, id: PropertyId, cur: Option<Bytes>) -> PR<Bytes, ErrorV5> {
    if cur is Some { PR::Err(ErrorV5::DuplicatedProperty(id)) }
    else { match p_bin(s) { PR::Inc => PR::Inc, PR::Err(e) => PR::Err(ErrorV5::Common(e)), PR::Ok(v, n) => PR::Ok(mk_bytes(v), n) } }
}
pub open spec fn step_varint(s: Seq<u8>, id: PropertyId, cur: Option<VarByteInt>) -> PR<VarByteInt, ErrorV5> {
    if cur is Some { PR::Err(ErrorV5::DuplicatedProperty(id)) }
    else { match p_varint(s) { PR::Inc => PR::Inc, PR::Err(e) => PR::Err(ErrorV5::Common(e)),
        PR::Ok(v, n) => match var_byte_int_of(v) { Ok(x) => PR::Ok(x, n), Err(e) => PR::Err(e) } } }
}
pub open spec fn step_up(s: Seq<u8>) -> PR<UserProperty, ErrorV5> {
    match p_str(s) { PR::Inc => PR::Inc, PR::Err(e) => PR::Err(ErrorV5::Common(e)),
        PR::Ok(a, n1) => match p_str(s.skip(n1 as int)) { PR::Inc => PR::Inc, PR::Err(e) => PR::Err(ErrorV5::Common(e)),
            PR::Ok(b, n2) => PR::Ok(UserProperty { name: Arc::new(mk_string(a)), value: Arc::new(mk_string(b)) }, n1 + n2) } }
}
