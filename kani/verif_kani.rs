//! Kani harnesses for mqtt-proto (added to a scratch copy of the crate as `src/verif_kani.rs`; never
//! committed to /repo).  Every harness is annotated with a `//@` line read by /verif/vcheck:
//!   //@ id=<obligation group> props=<Cxx,..> kind=complete|bounded(<bound>) tier=quick|thorough [flags=..]
//! `complete` = loop-free (or width-bounded with unwinding assertions) over the full symbolic machine
//! domain: a proof.  `bounded(..)` = stand-in with the stated bound, never counted as proved.
//! Literal numbers in the expected tables are typed in from the OASIS MQTT 3.1.1 / 5.0 documents.
#![allow(dead_code, unused_imports, unused_variables, unused_mut)]

use std::future::Future;
use std::io;
use std::pin::Pin;
use std::task::{Context, Poll, Waker};

use crate::*;

mod arith;
mod tables;
mod pollstep;
mod pollstep8;
mod topics;

/// poll a future that can never be Pending (reader is `&[u8]`): one poll, by hand (no block_on: Kani ICE)
pub(crate) fn run_ready<F: Future>(fut: F) -> F::Output {
    let waker = Waker::noop();
    let mut cx = Context::from_waker(&waker);
    let mut fut = std::pin::pin!(fut);
    match fut.as_mut().poll(&mut cx) {
        Poll::Ready(v) => v,
        Poll::Pending => {
            assert!(false, "reader-ready: a future over &[u8] returned Pending");
            loop {}
        }
    }
}

/// stub for `futures_lite::future::block_on<T, F: Future<Output = T>>` (Kani ICEs on the real one): one poll, as `run_ready`
pub(crate) fn stub_block_on<T, F: Future<Output = T>>(fut: F) -> T { run_ready(fut) }
