//! single-step contracts of the poll decoder
use super::*;
