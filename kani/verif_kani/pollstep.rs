//! Single-step contracts of the real `GenericPollPacket::poll` (DESIGN.md §2.3).
//! The state struct has only pub fields, so each harness starts from *every* state satisfying the
//! representation invariant `Inv` (not just reachable ones), performs ONE poll with a reader whose
//! first `poll_read`s are scripted and later ones return Pending, and compares with the transition
//! function written from the property statement.  Induction over the number of reads (step + merge)
//! then gives schedule independence for schedules of any length.
use super::*;
use std::mem::MaybeUninit;
use tokio::io::{AsyncRead, ReadBuf};

pub(crate) const B: usize = 4; // bound on the body length dimension (body harnesses are labelled bounded(B))

#[derive(Clone, Copy)]
pub(crate) struct H { hd: u8, rl: u32 }
#[derive(PartialEq, Eq, Clone, Copy)]
pub(crate) enum E { Io(io::ErrorKind), Eof, VarInt, RemLen, Hdr, Other }
impl From<io::Error> for E { fn from(e: io::Error) -> E { E::Io(e.kind()) } }
impl From<Error> for E {
    fn from(e: Error) -> E {
        match e {
            Error::IoError(k, _) => if k == io::ErrorKind::UnexpectedEof { E::Eof } else { E::Io(k) },
            Error::InvalidVarByteInt => E::VarInt,
            Error::InvalidRemainingLength => E::RemLen,
            Error::InvalidHeader => E::Hdr,
            _ => E::Other,
        }
    }
}
pub(crate) struct P { hd: u8, n: usize, body: [u8; B], empty: bool }

/// Parametric mock of `PollHeader`: the generic `poll` talks to H only through these five methods.
///  hd bit7: new_with fails; rl > B: new_with fails (bounds the body allocation);
///  hd bit6: body-less packet type; hd bit0: block_decode leaves one byte unread; hd bit1: inner EOF.
impl PollHeader for H {
    type Error = E;
    type Packet = P;
    fn new_with(hd: u8, remaining_len: u32) -> Result<Self, E> {
        if hd & 0x80 != 0 || remaining_len as usize > B { return Err(E::Hdr); }
        Ok(H { hd, rl: remaining_len })
    }
    fn build_empty_packet(&self) -> Option<P> {
        if self.hd & 0x40 != 0 { Some(P { hd: self.hd, n: 0, body: [0; B], empty: true }) } else { None }
    }
    fn block_decode(self, reader: &mut &[u8]) -> Result<P, E> {
        let mut body = [0u8; B];
        let n = reader.len();
        let mut i = 0;
        while i < n && i < B { body[i] = reader[i]; i += 1; }
        if self.hd & 2 != 0 { return Err(E::Eof); }
        let leave = if self.hd & 1 != 0 && n > 0 { 1 } else { 0 };
        *reader = &reader[n - leave..];
        Ok(P { hd: self.hd, n, body, empty: false })
    }
    fn remaining_len(&self) -> usize { self.rl as usize }
    fn is_eof_error(err: &E) -> bool { *err == E::Eof }
}

/// Scripted transport. call k (0-based) < `ready`: behaves per `mode[k]`; afterwards Pending.
/// It also checks the decoder's side of the AsyncRead contract: requested capacity and that the
/// ReadBuf does not claim bytes as initialised that nobody wrote (F7).
pub(crate) struct Script {
    data: [[u8; B]; 2], n: [usize; 2], mode: [u8; 2], ready: u8, calls: u8,
    cap_seen: [usize; 3], init_seen: [usize; 3], filled_seen: [usize; 3],
}
impl Script {
    fn new(ready: u8) -> Script {
        let s = Script { data: kani::any(), n: kani::any(), mode: kani::any(), ready, calls: 0,
                         cap_seen: [0; 3], init_seen: [0; 3], filled_seen: [0; 3] };
        kani::assume(s.mode[0] <= 3 && s.mode[1] <= 3);
        kani::assume(s.n[0] >= 1 && s.n[0] <= B && s.n[1] >= 1 && s.n[1] <= B);
        s
    }
}
impl AsyncRead for Script {
    fn poll_read(self: Pin<&mut Self>, _cx: &mut Context<'_>, buf: &mut ReadBuf<'_>) -> Poll<io::Result<()>> {
        let me = self.get_mut();
        let k = me.calls as usize;
        me.calls += 1;
        if k < 3 { me.cap_seen[k] = buf.remaining(); me.init_seen[k] = buf.initialized().len(); me.filled_seen[k] = buf.filled().len(); }
        if k >= me.ready as usize { return Poll::Pending; }
        match me.mode[k] {
            0 => Poll::Pending,
            1 => Poll::Ready(Ok(())),                                    // zero bytes: end of stream
            2 => Poll::Ready(Err(io::ErrorKind::ConnectionReset.into())),
            _ => { let n = if me.n[k] <= buf.remaining() { me.n[k] } else { buf.remaining() };
                   buf.put_slice(&me.data[k][..n]); Poll::Ready(Ok(())) }
        }
    }
}

fn pow128(i: u8) -> u32 { match i { 0 => 1, 1 => 128, 2 => 16384, _ => 2097152 } }

/// every header state satisfying Inv
fn any_header_state() -> PollHeaderState {
    let cb: Option<u8> = kani::any();
    let var_idx: u8 = kani::any();
    let var_int: u32 = kani::any();
    kani::assume(var_idx <= 3 && var_int < pow128(var_idx));
    if cb.is_none() { kani::assume(var_idx == 0 && var_int == 0); }
    PollHeaderState { control_byte: cb, var_idx, var_int }
}

fn poll_once(state: &mut GenericPollPacketState<H>, rd: &mut Script) -> Poll<Result<(usize, Vec<MaybeUninit<u8>>, P), E>> {
    let waker = Waker::noop();
    let mut cx = Context::from_waker(&waker);
    let mut fut = GenericPollPacket::new(state, rd);   // a fresh future every time: resume-from-state
    Pin::new(&mut fut).poll(&mut cx)
}

//@ id=poll.header-step props=C01,C03,C04,C05,C06,C07,C08,C11,C14,C15,C20 kind=complete tier=quick
#[kani::proof]
#[kani::unwind(6)]
fn k_poll_header_step() {
    let st = any_header_state();
    let (cb0, idx0, v0) = (st.control_byte, st.var_idx, st.var_int);
    let mut state = GenericPollPacketState::Header(st);
    let mut rd = Script::new(1);
    let b = rd.data[0][0];
    let mode = rd.mode[0];
    let out = poll_once(&mut state, &mut rd);
    assert!(rd.cap_seen[0] == 1, "C05:poll.header:asks-for-exactly-one-byte");
    assert!(rd.init_seen[0] >= rd.filled_seen[0], "C03:poll.header:readbuf-well-formed");
    match mode {
        0 => { assert!(out.is_pending(), "C05:poll.header:pending-iff-transport-pending");
               match &state { GenericPollPacketState::Header(h) => assert!(h.control_byte == cb0 && h.var_idx == idx0 && h.var_int == v0, "C05:poll.header:pending-leaves-state-unchanged"), _ => assert!(false, "C05:poll.header:pending-leaves-state-unchanged") } }
        1 => assert!(matches!(out, Poll::Ready(Err(E::Eof))), "C07:poll.header:zero-length-read-is-UnexpectedEof"),
        2 => assert!(matches!(out, Poll::Ready(Err(E::Io(io::ErrorKind::ConnectionReset)))), "C14:poll.header:transport-error-kind-preserved"),
        _ => {
            if cb0.is_none() {
                assert!(out.is_pending(), "C05:poll.header:needs-more-after-control-byte");
                match &state { GenericPollPacketState::Header(h) => assert!(h.control_byte == Some(b) && h.var_idx == 0 && h.var_int == 0, "C05:poll.header:control-byte-recorded"), _ => assert!(false, "C05:poll.header:control-byte-recorded") }
            } else {
                let v1 = v0 + ((b % 128) as u32) * pow128(idx0);
                if b >= 128 {
                    if idx0 < 3 {
                        assert!(out.is_pending(), "C05:poll.header:continuation-needs-more");
                        match &state { GenericPollPacketState::Header(h) => assert!(h.control_byte == cb0 && h.var_idx == idx0 + 1 && h.var_int == v1, "C15:poll.header:var-int-accumulates-7-bits-per-byte"), _ => assert!(false, "C15:poll.header:var-int-accumulates-7-bits-per-byte") }
                    } else {
                        assert!(matches!(out, Poll::Ready(Err(E::VarInt))), "C15:poll.header:fifth-length-byte-is-InvalidVarByteInt");
                    }
                } else {
                    let hd = cb0.unwrap();
                    let rl = v1;
                    if hd & 0x80 != 0 || rl as usize > B {
                        assert!(matches!(out, Poll::Ready(Err(E::Hdr))), "C20:poll.header:new_with-error-passed-through");
                    } else if hd & 0x40 != 0 {
                        if rl != 0 { assert!(matches!(out, Poll::Ready(Err(E::RemLen))), "C04:poll.header:bodyless-packet-with-nonzero-length-rejected"); }
                        else { match out { Poll::Ready(Ok((t, body, p))) => { assert!(t == 2 + idx0 as usize, "C05:poll.header:bodyless-total-equals-bytes-consumed"); assert!(body.len() == 0 && p.empty, "C01:poll.header:bodyless-packet-returned"); }, _ => assert!(false, "C04:poll.header:bodyless-packet-accepted") } }
                    } else if rl == 0 {
                        assert!(matches!(out, Poll::Ready(Err(E::RemLen))), "C04:poll.header:zero-length-for-packet-with-body-rejected");
                    } else {
                        assert!(out.is_pending(), "C05:poll.header:body-needs-more");
                        assert!(rd.cap_seen[1] == rl as usize, "C05:poll.body:first-read-asks-exactly-remaining-length");
                        assert!(rd.init_seen[1] == 0 && rd.filled_seen[1] == 0, "C03:poll.body:uninitialised-buffer-not-claimed-initialised");
                        match &state { GenericPollPacketState::Body(bs) => { assert!(bs.idx == 0 && bs.buf.len() == rl as usize, "C05:poll.header:body-state-initialised");
                                assert!(bs.total == 2 + idx0 as usize + rl as usize, "C08:poll.header:total-is-1+length-bytes+remaining"); assert!(bs.header.hd == hd && bs.header.rl == rl, "C05:poll.header:header-kept"); },
                            _ => assert!(false, "C05:poll.header:moves-to-body-state") }
                    }
                }
            }
        }
    }
}

/// every body state satisfying Inv (buffer length len in 1..=B, idx < len, prefix already delivered)
fn any_body_state(pre: &[u8; B]) -> (GenericPollPacketState<H>, usize, usize, u8, usize) {
    let len: usize = kani::any();
    kani::assume(len >= 1 && len <= B);
    let idx: usize = kani::any();
    kani::assume(idx < len);
    let mut buf: Vec<MaybeUninit<u8>> = Vec::with_capacity(len);
    unsafe { buf.set_len(len); }
    let mut i = 0;
    while i < idx { buf[i] = MaybeUninit::new(pre[i]); i += 1; }
    let hd: u8 = kani::any();
    kani::assume(hd & 0xC0 == 0);
    let k: usize = kani::any();
    kani::assume(k <= 3);
    let header = H { hd, rl: len as u32 };
    let total = 2 + k + len;
    (GenericPollPacketState::Body(GenericPollBodyState { header, total, idx, buf }), len, idx, hd, total)
}

//@ id=poll.body-step props=C01,C03,C04,C05,C06,C07,C08,C11,C12,C14,C20 kind=bounded(body-length<=4) tier=quick
#[kani::proof]
#[kani::unwind(6)]
fn k_poll_body_step() {
    let pre: [u8; B] = kani::any();
    let (mut state, len, idx, hd, total) = any_body_state(&pre);
    let mut rd = Script::new(1);
    kani::assume(rd.n[0] <= len - idx);
    let n = rd.n[0];
    let data = rd.data[0];
    let mode = rd.mode[0];
    let out = poll_once(&mut state, &mut rd);
    assert!(rd.cap_seen[0] == len - idx, "C05:poll.body:never-asks-beyond-the-frame");
    assert!(rd.init_seen[0] == 0 && rd.filled_seen[0] == 0, "C03:poll.body:uninitialised-buffer-not-claimed-initialised");
    match mode {
        0 => { assert!(out.is_pending(), "C05:poll.body:pending-iff-transport-pending");
               match &state { GenericPollPacketState::Body(b) => assert!(b.idx == idx && b.buf.len() == len && b.total == total, "C05:poll.body:pending-leaves-state-unchanged"), _ => assert!(false, "C05:poll.body:pending-leaves-state-unchanged") } }
        1 => assert!(matches!(out, Poll::Ready(Err(E::Eof))), "C07:poll.body:zero-length-read-is-UnexpectedEof"),
        2 => assert!(matches!(out, Poll::Ready(Err(E::Io(io::ErrorKind::ConnectionReset)))), "C14:poll.body:transport-error-kind-preserved"),
        _ => {
            if idx + n < len {
                assert!(out.is_pending(), "C05:poll.body:needs-more");
                assert!(rd.cap_seen[1] == len - idx - n, "C05:poll.body:next-read-asks-only-for-the-rest");
                match &state { GenericPollPacketState::Body(b) => assert!(b.idx == idx + n && b.buf.len() == len && b.total == total, "C05:poll.body:progress-recorded-in-state"), _ => assert!(false, "C05:poll.body:stays-in-body-state") }
            } else if hd & 2 != 0 {
                assert!(matches!(out, Poll::Ready(Err(E::RemLen))), "C20:poll.body:inner-eof-is-InvalidRemainingLength");
            } else if hd & 1 != 0 {
                assert!(matches!(out, Poll::Ready(Err(E::RemLen))), "C04:poll.body:leftover-bytes-are-InvalidRemainingLength");
            } else {
                match out {
                    Poll::Ready(Ok((t, b, p))) => {
                        assert!(t == total, "C05:poll.body:reported-total");
                        assert!(b.len() == len && p.n == len, "C01:poll.body:whole-body-handed-to-decoder-and-returned");
                        let mut j = 0;
                        while j < len {
                            let want = if j < idx { pre[j] } else { data[j - idx] };
                            assert!(p.body[j] == want, "C01:poll.body:decoder-sees-exactly-the-delivered-bytes");
                            assert!(unsafe { b[j].assume_init() } == want, "C01:poll.body:raw-body-returned-unchanged");
                            j += 1;
                        }
                    }
                    _ => assert!(false, "C04:poll.body:complete-well-formed-body-accepted"),
                }
            }
        }
    }
}

/// lightweight scripted transport for the header phase: call k < ready delivers one byte / EOF / error / Pending
pub(crate) struct HScript { b: [u8; 2], mode: [u8; 2], ready: u8, calls: u8, cap_ok: bool }
impl AsyncRead for HScript {
    fn poll_read(self: Pin<&mut Self>, _cx: &mut Context<'_>, buf: &mut ReadBuf<'_>) -> Poll<io::Result<()>> {
        let me = self.get_mut();
        let k = me.calls as usize;
        me.calls += 1;
        if k >= me.ready as usize { return Poll::Pending; }
        if buf.remaining() != 1 { me.cap_ok = false; }
        match me.mode[k] {
            0 => Poll::Pending,
            1 => Poll::Ready(Ok(())),
            2 => Poll::Ready(Err(io::ErrorKind::ConnectionReset.into())),
            _ => { buf.put_slice(&[me.b[k]]); Poll::Ready(Ok(())) }
        }
    }
}

/// merge, header phase: ONE poll that sees two reads ends where two single-read polls (each from a fresh future built
/// from the caller-held state, as proved by `poll.header-step`) would: after a first byte that leaves the header
/// incomplete, the second read is handled exactly as a first read from the updated state.
// thorough tier only: CBMC needs about 9 minutes for this two-read harness (two reads inside one poll == two polls).
//@ id=poll.header-merge props=C05,C08,C15 kind=complete tier=thorough
#[kani::proof]
#[kani::unwind(4)]
fn k_poll_header_merge() {
    let st = any_header_state();
    let (cb0, idx0, v0) = (st.control_byte, st.var_idx, st.var_int);
    let mut state: GenericPollPacketState<H> = GenericPollPacketState::Header(st);
    let mut rd = HScript { b: kani::any(), mode: kani::any(), ready: 2, calls: 0, cap_ok: true };
    kani::assume(rd.mode[0] == 3 && rd.mode[1] <= 3);
    let b1 = rd.b[0];
    // first byte leaves the header incomplete: control byte, or a continuation byte with room left
    kani::assume(cb0.is_none() || (b1 >= 128 && idx0 < 3));
    let (cb1, idx1, v1) = if cb0.is_none() { (Some(b1), 0u8, 0u32) } else { (cb0, idx0 + 1, v0 + ((b1 % 128) as u32) * pow128(idx0)) };
    let b2 = rd.b[1];
    let mode2 = rd.mode[1];
    kani::assume(mode2 != 3 || b2 >= 128);   // completing the header moves on to new_with/body: covered by poll.header-step
    let waker = Waker::noop();
    let mut cx = Context::from_waker(&waker);
    let out = { let mut fut = GenericPollPacket::new(&mut state, &mut rd); Pin::new(&mut fut).poll(&mut cx) };
    assert!(rd.cap_ok, "C05:poll.header:each-read-asks-for-one-byte");
    match mode2 {
        0 => { assert!(out.is_pending(), "C05:poll.header:second-read-pending");
               match &state { GenericPollPacketState::Header(h) => assert!(h.control_byte == cb1 && h.var_idx == idx1 && h.var_int == v1, "C05:poll.header:two-reads-equal-two-steps"), _ => assert!(false, "C05:poll.header:two-reads-equal-two-steps") } }
        1 => assert!(matches!(out, Poll::Ready(Err(E::Eof))), "C07:poll.header:eof-after-partial-header"),
        2 => assert!(matches!(out, Poll::Ready(Err(E::Io(io::ErrorKind::ConnectionReset)))), "C14:poll.header:error-after-partial-header"),
        _ => {
            if cb0.is_none() {
                assert!(out.is_pending(), "C05:poll.header:two-reads-equal-two-steps");
                match &state { GenericPollPacketState::Header(h) => assert!(h.control_byte == cb1 && h.var_idx == 1 && h.var_int == (b2 % 128) as u32, "C05:poll.header:two-reads-equal-two-steps"), _ => assert!(false, "C05:poll.header:two-reads-equal-two-steps") }
            } else if idx1 < 3 {
                assert!(out.is_pending(), "C05:poll.header:two-reads-equal-two-steps");
                match &state { GenericPollPacketState::Header(h) => assert!(h.control_byte == cb1 && h.var_idx == idx1 + 1 && h.var_int == v1 + ((b2 % 128) as u32) * pow128(idx1), "C05:poll.header:two-reads-equal-two-steps"), _ => assert!(false, "C05:poll.header:two-reads-equal-two-steps") }
            } else {
                assert!(matches!(out, Poll::Ready(Err(E::VarInt))), "C15:poll.header:fifth-length-byte-is-InvalidVarByteInt");
            }
        }
    }
}

/// merge, body phase: one poll that sees a partial chunk and then a second read
// NOT REGISTERED (tier=manual): does not finish within 290 s.
//@ id=poll.body-merge props=C05,C08 kind=bounded(body-length<=4) tier=manual
#[kani::proof]
#[kani::unwind(6)]
fn k_poll_body_merge() {
    let pre: [u8; B] = kani::any();
    let (mut state, len, idx, hd, total) = any_body_state(&pre);
    let mut rd = Script::new(2);
    kani::assume(rd.mode[0] == 3 && rd.n[0] < len - idx && rd.n[1] <= len - idx - rd.n[0]);
    let (n1, n2) = (rd.n[0], rd.n[1]);
    let (d1, d2) = (rd.data[0], rd.data[1]);
    let mode2 = rd.mode[1];
    let out = poll_once(&mut state, &mut rd);
    assert!(rd.cap_seen[0] == len - idx && rd.cap_seen[1] == len - idx - n1, "C05:poll.body:never-asks-beyond-the-frame");
    assert!(rd.init_seen[1] == 0 && rd.filled_seen[1] == 0, "C03:poll.body:uninitialised-buffer-not-claimed-initialised");
    match mode2 {
        0 => { assert!(out.is_pending(), "C05:poll.body:second-read-pending");
               match &state { GenericPollPacketState::Body(b) => assert!(b.idx == idx + n1 && b.buf.len() == len && b.total == total, "C05:poll.body:two-reads-equal-two-steps"), _ => assert!(false, "C05:poll.body:two-reads-equal-two-steps") } }
        1 => assert!(matches!(out, Poll::Ready(Err(E::Eof))), "C07:poll.body:eof-after-partial-body"),
        2 => assert!(matches!(out, Poll::Ready(Err(E::Io(io::ErrorKind::ConnectionReset)))), "C14:poll.body:error-after-partial-body"),
        _ => {
            if idx + n1 + n2 < len {
                assert!(out.is_pending(), "C05:poll.body:two-reads-equal-two-steps");
                match &state { GenericPollPacketState::Body(b) => assert!(b.idx == idx + n1 + n2 && b.buf.len() == len && b.total == total, "C05:poll.body:two-reads-equal-two-steps"), _ => assert!(false, "C05:poll.body:two-reads-equal-two-steps") }
            } else if hd & 3 != 0 {
                assert!(matches!(out, Poll::Ready(Err(E::RemLen))), "C04:poll.body:inexact-fill-is-InvalidRemainingLength");
            } else {
                match out {
                    Poll::Ready(Ok((t, b, p))) => {
                        assert!(t == total && b.len() == len && p.n == len, "C05:poll.body:two-reads-equal-two-steps");
                        let mut j = 0;
                        while j < len {
                            let want = if j < idx { pre[j] } else if j < idx + n1 { d1[j - idx] } else { d2[j - idx - n1] };
                            assert!(p.body[j] == want, "C05:poll.body:chunked-delivery-same-bytes");
                            j += 1;
                        }
                    }
                    _ => assert!(false, "C05:poll.body:two-reads-equal-two-steps"),
                }
            }
        }
    }
}

/// The same header step with the REAL v3 / v5 `Header` implementations of `PollHeader` (instead of the mock),
/// restricted to outcomes that do not enter the body decoders: body-less packets and header errors.
// NOT REGISTERED (tier=manual): with the real Header the body decoders become reachable and CBMC does not finish in 280 s.
//@ id=poll.header-step.real-v3 props=C01,C04,C05,C06,C08,C20 kind=complete tier=manual
#[kani::proof]
#[kani::unwind(6)]
#[kani::stub(<crate::Error as core::convert::From<std::io::Error>>::from, super::arith::stub_error_from_io)]
#[kani::stub(futures_lite::future::block_on, super::stub_block_on)]
fn k_poll_header_step_real_v3() {
    let st = any_header_state();
    kani::assume(st.control_byte.is_some());
    let (cb0, idx0, v0) = (st.control_byte.unwrap(), st.var_idx, st.var_int);
    let mut state: GenericPollPacketState<v3::Header> = GenericPollPacketState::Header(st);
    let mut rd = HScript { b: kani::any(), mode: [3, 0], ready: 1, calls: 0, cap_ok: true };
    let b = rd.b[0];
    kani::assume(b < 128);                       // the length field ends with this byte
    let rl = v0 + (b as u32) * pow128(idx0);
    kani::assume(rl == 0 || v3::Header::new_with(cb0, rl).is_err() || cb0 >> 4 >= 12);   // stay out of the body phase
    let waker = Waker::noop();
    let mut cx = Context::from_waker(&waker);
    let out = { let mut fut = GenericPollPacket::new(&mut state, &mut rd); Pin::new(&mut fut).poll(&mut cx) };
    match v3::Header::new_with(cb0, rl) {
        Err(_) => assert!(matches!(out, Poll::Ready(Err(Error::InvalidHeader))) || matches!(out, Poll::Ready(Err(Error::InvalidQos(3)))), "C20:poll.real-v3:header-error-passed-through"),
        Ok(h) => {
            let bodyless = matches!(h.typ, v3::PacketType::Pingreq | v3::PacketType::Pingresp | v3::PacketType::Disconnect);
            if bodyless && rl == 0 {
                match out { Poll::Ready(Ok((t, body, p))) => {
                    assert!(t == 2 + idx0 as usize && body.len() == 0, "C05:poll.real-v3:bodyless-total-equals-bytes-consumed");
                    assert!(matches!((h.typ, &p), (v3::PacketType::Pingreq, v3::Packet::Pingreq) | (v3::PacketType::Pingresp, v3::Packet::Pingresp) | (v3::PacketType::Disconnect, v3::Packet::Disconnect)), "C01:poll.real-v3:bodyless-packet-matches-type");
                }, _ => assert!(false, "C04:poll.real-v3:bodyless-packet-accepted") }
            } else {
                assert!(matches!(out, Poll::Ready(Err(Error::InvalidRemainingLength))), "C04:poll.real-v3:length-mismatch-rejected");
            }
        }
    }
}
