//! Topic name / topic filter validators and accessors against an oracle written from MQTT 4.7 / 4.8.
//! BOUNDED stand-ins (the unbounded claim is the Verus contract where proved): a fixed prefix shape followed by
//! up to S symbolic characters drawn from an alphabet covering every class the validators distinguish.
use super::*;
use std::convert::TryFrom;

const S: usize = 3;
const ALPHA: [char; 8] = ['/', '+', '#', '$', 'x', '\0', 'é', 's'];

/// oracle: MQTT 4.7.1 (wildcards), 4.7.3 (non-empty, no NUL, <= 65535 bytes), 4.8.2 ($share/{name}/{filter})
fn oracle_filter(cs: &[char], n: usize) -> Option<usize> {
    // returns None if invalid, Some(char index of the '/' that ends the share name, or 0 if not shared)
    if n == 0 { return None; }
    let mut k = 0;
    while k < n {
        let c = cs[k];
        if c == '\0' { return None; }
        if c == '#' && !(k == n - 1 && (k == 0 || cs[k - 1] == '/')) { return None; }
        if c == '+' && !((k == 0 || cs[k - 1] == '/') && (k == n - 1 || cs[k + 1] == '/')) { return None; }
        k += 1;
    }
    let pre = ['$', 's', 'h', 'a', 'r', 'e', '/'];
    let mut shared = n >= 7;
    let mut i = 0;
    while i < 7 { if shared && cs[i] != pre[i] { shared = false; } i += 1; }
    if !shared { return Some(0); }
    let mut j = 7;
    while j < n && cs[j] != '/' {
        if cs[j] == '+' || cs[j] == '#' { return None; }
        j += 1;
    }
    if j >= n { return None; }          // no '/' after the share name
    if j == 7 { return None; }          // empty share name
    if j == n - 1 { return None; }      // empty filter
    Some(j)
}

fn oracle_name(cs: &[char], n: usize) -> bool {
    let mut k = 0;
    while k < n { if cs[k] == '+' || cs[k] == '#' || cs[k] == '\0' { return false; } k += 1; }
    true
}

fn build(prefix: &str, buf: &mut [u8; 64], cs: &mut [char; 24]) -> (usize, usize) {
    // returns (byte length, char count)
    let mut bl = 0;
    let mut cl = 0;
    for c in prefix.chars() { cs[cl] = c; cl += 1; bl += c.encode_utf8(&mut buf[bl..]).len(); }
    let n: usize = kani::any();
    kani::assume(n <= S);
    let mut i = 0;
    while i < S {
        if i < n {
            let a: usize = kani::any();
            kani::assume(a < ALPHA.len());
            let c = ALPHA[a];
            cs[cl] = c; cl += 1;
            bl += c.encode_utf8(&mut buf[bl..]).len();
        }
        i += 1;
    }
    (bl, cl)
}

fn byte_off(cs: &[char], upto: usize) -> usize { let mut b = 0; let mut k = 0; while k < upto { b += cs[k].len_utf8(); k += 1; } b }

fn check_filter(prefix: &str) {
    let mut buf = [0u8; 64];
    let mut cs = ['x'; 24];
    let (bl, cl) = build(prefix, &mut buf, &mut cs);
    let s: &str = unsafe { std::str::from_utf8_unchecked(&buf[..bl]) };
    let (inv, sep) = TopicFilter::is_invalid(s);
    match oracle_filter(&cs, cl) {
        None => { assert!(inv, "C16:TopicFilter.is_invalid:rejects-what-the-standard-rejects"); assert!(sep == 0, "C16:TopicFilter.is_invalid:sep-zero-when-invalid"); }
        Some(j) => {
            assert!(!inv, "C16:TopicFilter.is_invalid:accepts-what-the-standard-accepts");
            let want = if j == 0 { 0 } else { byte_off(&cs, j) };
            assert!(sep as usize == want, "C17:TopicFilter.is_invalid:cached-separator-is-byte-offset-of-share-name-end");
        }
    }
}

macro_rules! filter_harness { ($h:ident, $p:literal) => {
    #[kani::proof]
    #[kani::unwind(14)]
    fn $h() { check_filter($p); }
} }

//@ id=topicfilter.bounded.plain props=C16,C17 kind=bounded(prefix""+<=3chars/8-symbol-alphabet) tier=quick xcheck=1
filter_harness!(k_filter_plain, "");
//@ id=topicfilter.bounded.share props=C16,C17 kind=bounded(prefix"$share/"+<=3chars) tier=quick xcheck=1
filter_harness!(k_filter_share, "$share/");
//@ id=topicfilter.bounded.share-g props=C16,C17 kind=bounded(prefix"$share/g"+<=3chars) tier=quick xcheck=1
filter_harness!(k_filter_share_g, "$share/g");
//@ id=topicfilter.bounded.share-g-slash props=C16,C17 kind=bounded(prefix"$share/é/"+<=3chars) tier=quick xcheck=1
filter_harness!(k_filter_share_g_slash, "$share/é/");
//@ id=topicfilter.bounded.share6 props=C16,C17 kind=bounded(prefix"$share"+<=3chars) tier=quick xcheck=1
filter_harness!(k_filter_share6, "$share");
//@ id=topicfilter.bounded.shar props=C16,C17 kind=bounded(prefix"$shar"+<=3chars) tier=quick xcheck=1
filter_harness!(k_filter_shar, "$shar");
//@ id=topicfilter.bounded.sharX props=C16,C17 kind=bounded(prefix"$sharE/g/"+<=3chars) tier=quick xcheck=1
filter_harness!(k_filter_share_upper, "$sharE/g/");
//@ id=topicfilter.bounded.level props=C16,C17 kind=bounded(prefix"a/"+<=3chars) tier=quick xcheck=1
filter_harness!(k_filter_level, "a/");

//@ id=topicname.bounded props=C18 kind=bounded(<=3chars/8-symbol-alphabet) tier=quick xcheck=1
#[kani::proof]
#[kani::unwind(26)]
fn k_topic_name() {
    let mut buf = [0u8; 64];
    let mut cs = ['x'; 24];
    let (bl, cl) = build("", &mut buf, &mut cs);
    let s: &str = unsafe { std::str::from_utf8_unchecked(&buf[..bl]) };
    assert!(TopicName::is_invalid(s) == !oracle_name(&cs, cl), "C18:TopicName.is_invalid:equals-standard-rule");
}

/// `$share/` / `$SYS/` prefix reporting of accepted topic names (bounded cross-check of the Verus contracts of
/// TopicName::is_shared / is_sys, which rely on a trusted `starts_with` wrapper): the prefix itself, the prefix minus its
/// last character, and the prefix plus one symbolic character.
fn check_name_prefix(prefix: &str, is_share: bool) {
    let mut buf = [0u8; 64];
    let mut cs = ['x'; 24];
    let mut bl = 0;
    let mut cl = 0;
    for c in prefix.chars() { cs[cl] = c; cl += 1; bl += c.encode_utf8(&mut buf[bl..]).len(); }
    let extra: bool = kani::any();
    if extra {
        let a: usize = kani::any();
        kani::assume(a < ALPHA.len());
        let c = ALPHA[a];
        kani::assume(c != '+' && c != '#' && c != '\0');
        cs[cl] = c; cl += 1; bl += c.encode_utf8(&mut buf[bl..]).len();
    }
    let s: &str = unsafe { std::str::from_utf8_unchecked(&buf[..bl]) };
    let name = TopicName::try_from(s.to_owned());
    assert!(name.is_ok(), "C18:TopicName.try_from:accepts-names-without-wildcards");
    let name = name.unwrap();
    let full = if is_share { "$share/" } else { "$SYS/" };
    let has = bl >= full.len() && &buf[..full.len()] == full.as_bytes();
    if is_share { assert!(name.is_shared() == has, "C18:TopicName.is_shared:equals-prefix-test"); }
    else { assert!(name.is_sys() == has, "C18:TopicName.is_sys:equals-prefix-test"); }
    assert!(&*name == s, "C18:TopicName.deref:returns-the-original-text");
}
//@ id=topicname.prefix.share props=C18 kind=bounded("$share/"|"$share"+<=1char) tier=quick xcheck=1
#[kani::proof]
#[kani::unwind(12)]
fn k_name_prefix_share() { let full: bool = kani::any(); check_name_prefix(if full { "$share/" } else { "$share" }, true); }
//@ id=topicname.prefix.sys props=C18 kind=bounded("$SYS/"|"$SYS"+<=1char) tier=quick xcheck=1
#[kani::proof]
#[kani::unwind(12)]
fn k_name_prefix_sys() { let full: bool = kani::any(); check_name_prefix(if full { "$SYS/" } else { "$SYS" }, false); }
