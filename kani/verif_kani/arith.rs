//! Pid arithmetic (C19), variable byte integer + length helpers (C15), big-endian wrappers (A4 cross-check)
use super::*;
use std::convert::TryFrom;

// ---------------------------------------------------------------- C19 Pid
fn any_pid() -> Pid {
    let v: u16 = kani::any();
    kani::assume(v != 0);
    Pid::try_from(v).unwrap()
}
/// mathematical model from the property statement: step `u` times around the cycle 1..=65535
fn cycle_add(v: u16, u: u16) -> u16 { ((((v as u32) - 1) + (u as u32)) % 65535 + 1) as u16 }
fn cycle_sub(v: u16, u: u16) -> u16 { ((((v as u32) - 1) + 65535 * 2 - (u as u32)) % 65535 + 1) as u16 }

//@ id=pid.add.contract props=C19 kind=complete tier=quick contract=1
#[kani::proof_for_contract(<Pid as core::ops::Add<u16>>::add)]
fn k_pid_add_contract() {
    let p = any_pid();
    let u: u16 = kani::any();
    let _ = p + u;
}

//@ id=pid.sub.contract props=C19 kind=complete tier=quick contract=1
#[kani::proof_for_contract(<Pid as core::ops::Sub<u16>>::sub)]
fn k_pid_sub_contract() {
    let p = any_pid();
    let u: u16 = kani::any();
    let _ = p - u;
}

//@ id=pid.laws props=C19 kind=complete tier=quick
#[kani::proof]
fn k_pid_laws() {
    let p = any_pid();
    let u: u16 = kani::any();
    let a = p + u;
    let s = p - u;
    assert!(a.value() != 0, "C19:pid.add:never-zero");
    assert!(s.value() != 0, "C19:pid.sub:never-zero");
    assert!(a.value() == cycle_add(p.value(), u), "C19:pid.add:equals-u-steps-around-cycle");
    assert!(s.value() == cycle_sub(p.value(), u), "C19:pid.sub:equals-u-steps-back-around-cycle");
    assert!((a - u) == p, "C19:pid.sub-undoes-add");
    assert!((s + u) == p, "C19:pid.add-undoes-sub");
    let mut q = p;
    q += u;
    assert!(q == a, "C19:pid.add_assign-agrees-with-add");
    let mut q2 = p;
    q2 -= u;
    assert!(q2 == s, "C19:pid.sub_assign-agrees-with-sub");
}

//@ id=pid.try_from props=C19,C12,C20 kind=complete tier=quick
#[kani::proof]
fn k_pid_try_from() {
    let v: u16 = kani::any();
    match Pid::try_from(v) {
        Ok(p) => {
            assert!(v != 0, "C19:pid.try_from:zero-rejected");
            assert!(p.value() == v, "C19:pid.try_from:value-preserved");
        }
        Err(e) => {
            assert!(v == 0, "C19:pid.try_from:fails-only-for-zero");
            assert!(matches!(e, Error::ZeroPid), "C20:pid.try_from:error-is-ZeroPid");
        }
    }
    assert!(Pid::default().value() == 1, "C19:pid.default-is-one");
}

// ---------------------------------------------------------------- C15 length tables (all usize, loop-free)
fn spec_vlen(n: usize) -> Option<usize> {
    // MQTT 5.0 Table 1-1 "Size of Variable Byte Integer"
    if n <= 127 { Some(1) } else if n <= 16_383 { Some(2) } else if n <= 2_097_151 { Some(3) } else if n <= 268_435_455 { Some(4) } else { None }
}

//@ id=varint.len-tables props=C01,C02,C08,C09,C10,C11,C15 kind=complete tier=quick
#[kani::proof]
fn k_len_tables() {
    let n: usize = kani::any();
    match (var_int_len(n), spec_vlen(n)) {
        (Ok(l), Some(s)) => assert!(l == s, "C15:var_int_len:equals-table"),
        (Err(e), None) => assert!(matches!(e, Error::InvalidVarByteInt), "C15:var_int_len:too-large-is-InvalidVarByteInt"),
        _ => assert!(false, "C15:var_int_len:accepts-exactly-below-2^28"),
    }
    match (total_len(n), spec_vlen(n)) {
        (Ok(t), Some(s)) => {
            assert!(t == 1 + s + n, "C15:total_len:equals-1+vlen+remaining");
            assert!(header_len(t) == 1 + s, "C15:header_len:inverts-total_len");
            assert!(remaining_len(t) == n, "C15:remaining_len:inverts-total_len");
        }
        (Err(e), None) => assert!(matches!(e, Error::InvalidVarByteInt), "C15:total_len:too-large-is-InvalidVarByteInt"),
        _ => assert!(false, "C15:total_len:accepts-exactly-below-2^28"),
    }
}

// (the var-int *reader* is async code over tokio's ReadExact: CBMC did not finish a 5-byte symbolic
//  prefix in 280 s; it is proved for all streams by Verus instead, bit operations via by(bit_vector).)

// ---------------------------------------------------------------- C15 var-int writer: all values below 2^32
/// stub for `impl From<io::Error> for Error`: same kind, empty message (Display of io::Error drags core::fmt into CBMC)
pub(crate) fn stub_error_from_io(err: io::Error) -> Error { Error::IoError(err.kind(), String::new()) }

struct Sink { buf: [u8; 8], n: usize }
impl io::Write for Sink {
    fn write(&mut self, d: &[u8]) -> io::Result<usize> {
        let mut i = 0;
        while i < d.len() { if self.n < 8 { self.buf[self.n] = d[i]; } self.n += 1; i += 1; }
        Ok(d.len())
    }
    fn flush(&mut self) -> io::Result<()> { Ok(()) }
}

//@ id=varint.writer props=C01,C02,C09,C10,C11,C15 kind=complete tier=quick unwind=7
#[kani::proof]
#[kani::unwind(7)]
fn k_write_var_int() {
    let v: u32 = kani::any();
    let mut s = Sink { buf: [0; 8], n: 0 };
    let r = write_var_int(&mut s, v as usize);
    assert!(r.is_ok(), "C15:write_var_int:ok-on-infallible-sink");
    if (v as usize) < 268_435_456 {
        let l = spec_vlen(v as usize).unwrap();
        assert!(s.n == l, "C15:write_var_int:minimal-length-equals-var_int_len");
        // value recovered by the standard's decoding algorithm (MQTT 5.0 §1.5.5, non-normative)
        let mut back: u32 = 0; let mut mult: u32 = 1; let mut i = 0;
        while i < l { back += ((s.buf[i] % 128) as u32) * mult; mult = mult.wrapping_mul(128);
            assert!((s.buf[i] >= 128) == (i + 1 < l), "C15:write_var_int:continuation-bits");
            i += 1; }
        assert!(back == v, "C15:write_var_int:standard-decoding-recovers-value");
        // minimal: last byte non-zero unless single byte
        assert!(l == 1 || s.buf[l - 1] != 0, "C15:write_var_int:minimal-form");
    } else {
        assert!(s.n == 5, "C15:write_var_int:2^28..2^32-takes-5-bytes");
    }
}

// ---------------------------------------------------------------- A4 cross-check: the big-endian wrapper contracts
//@ id=deps.be-bytes props=C01,C10 kind=complete tier=quick
#[kani::proof]
fn k_be_bytes() {
    let a: u16 = kani::any();
    let b = a.to_be_bytes();
    assert!(b[0] == (a / 256) as u8 && b[1] == (a % 256) as u8, "A4:u16.to_be_bytes");
    assert!(u16::from_be_bytes(b) == (b[0] as u16) * 256 + b[1] as u16, "A4:u16.from_be_bytes");
    let c: u32 = kani::any();
    let d = c.to_be_bytes();
    assert!(d[0] == (c / 16777216) as u8 && d[1] == ((c / 65536) % 256) as u8 && d[2] == ((c / 256) % 256) as u8 && d[3] == (c % 256) as u8, "A4:u32.to_be_bytes");
    let t: bool = kani::any();
    assert!(u8::from(t) == if t { 1 } else { 0 }, "A4:u8.from(bool)");
    let tt: u8 = t.into();
    assert!(tt == if t { 1 } else { 0 }, "A4:bool.into()");
    let e: [u8; 4] = kani::any();
    assert!(u32::from_be_bytes(e) == (e[0] as u32) * 16777216 + (e[1] as u32) * 65536 + (e[2] as u32) * 256 + e[3] as u32, "A4:u32.from_be_bytes");
}
