//! code / flag / header tables against literal numbers from the standards
use super::*;
