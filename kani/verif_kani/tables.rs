//! Code / flag / header tables against literal numbers typed in from the OASIS documents
//! (MQTT 3.1.1 os, MQTT 5.0 os).  Every harness is loop-free over the full u8 / u32 domain: complete.
use super::*;
use std::convert::TryFrom;

/// Option-returning `from_u8` against a literal table; also pins every variant's wire number
/// and (via the exhaustive match) that the code has no variant the table lacks.
macro_rules! code_table {
    ($h:ident, $ty:ty, $from:expr, $tag:literal, [$( $var:ident = $num:literal ),* $(,)?]) => {
        #[kani::proof]
        fn $h() {
            let b: u8 = kani::any();
            let expect: Option<$ty> = match b { $( $num => Some(<$ty>::$var), )* _ => None };
            let got: Option<$ty> = ($from)(b);
            assert!(got == expect, concat!("C04:", $tag, ":from_u8-equals-standard-table"));
            if let Some(x) = got {
                assert!(x as u8 == b, concat!("C01:", $tag, ":as-u8-inverts-from_u8"));
                match x { $( <$ty>::$var => {} ),* }
            }
            $( assert!(<$ty>::$var as u8 == $num, concat!("C10:", $tag, ":variant-wire-number")); )*
            $( assert!(($from)($num) == Some(<$ty>::$var), concat!("C01:", $tag, ":from_u8-inverts-as-u8")); )*
        }
    };
}

//@ id=table.v5.ConnectReasonCode props=C01,C03,C04,C06,C10,C11,C12,C20 kind=complete tier=quick
code_table!(k_tbl_connect_reason, v5::ConnectReasonCode, v5::ConnectReasonCode::from_u8, "v5.ConnectReasonCode", [
    Success = 0x00, UnspecifiedError = 0x80, MalformedPacket = 0x81, ProtocolError = 0x82,
    ImplementationSpecificError = 0x83, UnsupportedProtocolVersion = 0x84, ClientIdentifierNotValid = 0x85,
    BadUserNameOrPassword = 0x86, NotAuthorized = 0x87, ServerUnavailable = 0x88, ServerBusy = 0x89, Banned = 0x8A,
    BadAuthMethod = 0x8C, TopicNameInvalid = 0x90, PacketTooLarge = 0x95, QuotaExceeded = 0x97,
    PayloadFormatInvalid = 0x99, RetainNotSupported = 0x9A, QoSNotSupported = 0x9B, UseAnotherServer = 0x9C,
    ServerMoved = 0x9D, ConnectionRateExceeded = 0x9F,
]);

//@ id=table.v5.DisconnectReasonCode props=C01,C03,C04,C06,C10,C11,C12,C20 kind=complete tier=quick
code_table!(k_tbl_disconnect_reason, v5::DisconnectReasonCode, v5::DisconnectReasonCode::from_u8, "v5.DisconnectReasonCode", [
    NormalDisconnect = 0x00, DisconnectWithWillMessage = 0x04, UnspecifiedError = 0x80, MalformedPacket = 0x81,
    ProtocolError = 0x82, ImplementationSpecificError = 0x83, NotAuthorized = 0x87, ServerBusy = 0x89,
    ServerShuttingDown = 0x8B, KeepAliveTimeout = 0x8D, SessionTakenOver = 0x8E, TopicFilterInvalid = 0x8F,
    TopicNameInvalid = 0x90, ReceiveMaximumExceeded = 0x93, TopicAliasInvalid = 0x94, PacketTooLarge = 0x95,
    MessageRateTooHigh = 0x96, QuotaExceeded = 0x97, AdministrativeAction = 0x98, PayloadFormatInvalid = 0x99,
    RetainNotSupported = 0x9A, QoSNotSupported = 0x9B, UserAnotherServer = 0x9C, ServerMoved = 0x9D,
    SharedSubscriptionNotSupported = 0x9E, ConnectionRateExceeded = 0x9F, MaximumConnectTime = 0xA0,
    SubscriptionIdentifiersNotSupported = 0xA1, WildcardSubscriptionsNotSupported = 0xA2,
]);

//@ id=table.v5.AuthReasonCode props=C01,C03,C04,C06,C10,C11,C12,C20 kind=complete tier=quick
code_table!(k_tbl_auth_reason, v5::AuthReasonCode, v5::AuthReasonCode::from_u8, "v5.AuthReasonCode", [
    Success = 0x00, ContinueAuthentication = 0x18, ReAuthentication = 0x19,
]);

//@ id=table.v5.PubackReasonCode props=C01,C03,C04,C06,C10,C11,C12,C20 kind=complete tier=quick
code_table!(k_tbl_puback_reason, v5::PubackReasonCode, v5::PubackReasonCode::from_u8, "v5.PubackReasonCode", [
    Success = 0x00, NoMatchingSubscribers = 0x10, UnspecifiedError = 0x80, ImplementationSpecificError = 0x83,
    NotAuthorized = 0x87, TopicNameInvalid = 0x90, PacketIdentifierInUse = 0x91, QuotaExceeded = 0x97,
    PayloadFormatInvalid = 0x99,
]);

//@ id=table.v5.PubrecReasonCode props=C01,C03,C04,C06,C10,C11,C12,C20 kind=complete tier=quick
code_table!(k_tbl_pubrec_reason, v5::PubrecReasonCode, v5::PubrecReasonCode::from_u8, "v5.PubrecReasonCode", [
    Success = 0x00, NoMatchingSubscribers = 0x10, UnspecifiedError = 0x80, ImplementationSpecificError = 0x83,
    NotAuthorized = 0x87, TopicNameInvalid = 0x90, PacketIdentifierInUse = 0x91, QuotaExceeded = 0x97,
    PayloadFormatInvalid = 0x99,
]);

//@ id=table.v5.PubrelReasonCode props=C01,C03,C04,C06,C10,C11,C12,C20 kind=complete tier=quick
code_table!(k_tbl_pubrel_reason, v5::PubrelReasonCode, v5::PubrelReasonCode::from_u8, "v5.PubrelReasonCode", [
    Success = 0x00, PacketIdentifierNotFound = 0x92,
]);

//@ id=table.v5.PubcompReasonCode props=C01,C03,C04,C06,C10,C11,C12,C20 kind=complete tier=quick
code_table!(k_tbl_pubcomp_reason, v5::PubcompReasonCode, v5::PubcompReasonCode::from_u8, "v5.PubcompReasonCode", [
    Success = 0x00, PacketIdentifierNotFound = 0x92,
]);

//@ id=table.v5.SubscribeReasonCode props=C01,C03,C04,C06,C10,C11,C12,C20 kind=complete tier=quick
code_table!(k_tbl_subscribe_reason, v5::SubscribeReasonCode, v5::SubscribeReasonCode::from_u8, "v5.SubscribeReasonCode", [
    GrantedQoS0 = 0x00, GrantedQoS1 = 0x01, GrantedQoS2 = 0x02, UnspecifiedError = 0x80,
    ImplementationSpecificError = 0x83, NotAuthorized = 0x87, TopicFilterInvalid = 0x8F, PacketIdentifierInUse = 0x91,
    QuotaExceeded = 0x97, SharedSubscriptionNotSupported = 0x9E, SubscriptionIdentifiersNotSupported = 0xA1,
    WildcardSubscriptionsNotSupported = 0xA2,
]);

//@ id=table.v5.UnsubscribeReasonCode props=C01,C03,C04,C06,C10,C11,C12,C20 kind=complete tier=quick
code_table!(k_tbl_unsubscribe_reason, v5::UnsubscribeReasonCode, v5::UnsubscribeReasonCode::from_u8, "v5.UnsubscribeReasonCode", [
    Success = 0x00, NoSubscriptionExisted = 0x11, UnspecifiedError = 0x80, ImplementationSpecificError = 0x83,
    NotAuthorized = 0x87, TopicFilterInvalid = 0x8F, PacketIdentifierInUse = 0x91,
]);

//@ id=table.v5.RetainHandling props=C01,C03,C04,C06,C10,C11,C12,C20 kind=complete tier=quick
code_table!(k_tbl_retain_handling, v5::RetainHandling, v5::RetainHandling::from_u8, "v5.RetainHandling", [
    SendAtSubscribe = 0, SendAtSubscribeIfNotExist = 1, DoNotSend = 2,
]);

fn ok_or_none<T, E>(r: Result<T, E>) -> Option<T> { match r { Ok(v) => Some(v), Err(_) => None } }

//@ id=table.QoS props=C01,C03,C04,C06,C10,C11,C12,C20 kind=complete tier=quick
code_table!(k_tbl_qos, QoS, |b| ok_or_none(QoS::from_u8(b)), "QoS", [Level0 = 0, Level1 = 1, Level2 = 2]);

//@ id=table.v3.ConnectReturnCode props=C01,C03,C04,C06,C10,C11,C12,C20 kind=complete tier=quick
code_table!(k_tbl_v3_connect_return, v3::ConnectReturnCode, |b| ok_or_none(v3::ConnectReturnCode::from_u8(b)), "v3.ConnectReturnCode", [
    Accepted = 0, UnacceptableProtocolVersion = 1, IdentifierRejected = 2, ServerUnavailable = 3,
    BadUserNameOrPassword = 4, NotAuthorized = 5,
]);

//@ id=table.v3.SubscribeReturnCode props=C01,C03,C04,C06,C10,C11,C12,C20 kind=complete tier=quick
code_table!(k_tbl_v3_subscribe_return, v3::SubscribeReturnCode, |b| ok_or_none(v3::SubscribeReturnCode::from_u8(b)), "v3.SubscribeReturnCode", [
    MaxLevel0 = 0x00, MaxLevel1 = 0x01, MaxLevel2 = 0x02, Failure = 0x80,
]);

//@ id=table.v5.PropertyId props=C01,C03,C04,C06,C10,C11,C12,C20 kind=complete tier=quick
code_table!(k_tbl_property_id, v5::PropertyId, |b| ok_or_none(v5::PropertyId::from_u8(b)), "v5.PropertyId", [
    PayloadFormatIndicator = 0x01, MessageExpiryInterval = 0x02, ContentType = 0x03, ResponseTopic = 0x08,
    CorrelationData = 0x09, SubscriptionIdentifier = 0x0B, SessionExpiryInterval = 0x11,
    AssignedClientIdentifier = 0x12, ServerKeepAlive = 0x13, AuthenticationMethod = 0x15, AuthenticationData = 0x16,
    RequestProblemInformation = 0x17, WillDelayInterval = 0x18, RequestResponseInformation = 0x19,
    ResponseInformation = 0x1A, ServerReference = 0x1C, ReasonString = 0x1F, ReceiveMaximum = 0x21,
    TopicAliasMaximum = 0x22, TopicAlias = 0x23, MaximumQoS = 0x24, RetainAvailable = 0x25, UserProperty = 0x26,
    MaximumPacketSize = 0x27, WildcardSubscriptionAvailable = 0x28, SubscriptionIdentifierAvailable = 0x29,
    SharedSubscriptionAvailable = 0x2A,
]);

// ---- documented error variant + offending value for the Result-returning tables (C20)
//@ id=table.errors props=C03,C06,C12,C20 kind=complete tier=quick
#[kani::proof]
fn k_tbl_error_variants() {
    let b: u8 = kani::any();
    if let Err(e) = QoS::from_u8(b) {
        assert!(matches!(e, Error::InvalidQos(n) if n == b), "C20:QoS.from_u8:InvalidQos-carries-byte");
    }
    if let Err(e) = v3::ConnectReturnCode::from_u8(b) {
        assert!(matches!(e, Error::InvalidConnectReturnCode(n) if n == b), "C20:v3.ConnectReturnCode:InvalidConnectReturnCode-carries-byte");
    }
    if let Err(e) = v3::SubscribeReturnCode::from_u8(b) {
        assert!(matches!(e, Error::InvalidQos(n) if n == b), "C20:v3.SubscribeReturnCode:InvalidQos-carries-byte");
    }
    if let Err(e) = v5::PropertyId::from_u8(b) {
        assert!(matches!(e, v5::ErrorV5::InvalidPropertyId(n) if n == b), "C20:v5.PropertyId:InvalidPropertyId-carries-byte");
    }
    let v: u32 = kani::any();
    match v5::VarByteInt::try_from(v) {
        Ok(x) => { assert!(v < 268_435_456, "C12:VarByteInt:below-2^28"); assert!(x.value() == v, "C01:VarByteInt:value-preserved"); }
        Err(e) => { assert!(v >= 268_435_456, "C15:VarByteInt:rejects-only-2^28-and-above");
                    assert!(matches!(e, v5::ErrorV5::Common(Error::InvalidVarByteInt)), "C20:VarByteInt:InvalidVarByteInt"); }
    }
}

// ---- From<QoS> for v3 SubscribeReturnCode
//@ id=table.v3.qos-to-return-code props=C03,C06,C10,C12 kind=complete tier=quick
#[kani::proof]
fn k_tbl_qos_to_return_code() {
    assert!(v3::SubscribeReturnCode::from(QoS::Level0) as u8 == 0, "C10:v3.SubscribeReturnCode.from(QoS0)");
    assert!(v3::SubscribeReturnCode::from(QoS::Level1) as u8 == 1, "C10:v3.SubscribeReturnCode.from(QoS1)");
    assert!(v3::SubscribeReturnCode::from(QoS::Level2) as u8 == 2, "C10:v3.SubscribeReturnCode.from(QoS2)");
}

// ---------------------------------------------------------------- fixed header first byte (MQTT 3.1.1 Table 2.1/2.2, MQTT 5.0 Table 2-1/2-2)
#[derive(PartialEq, Eq, Clone, Copy)]
enum Ty { Connect, Connack, Publish, Puback, Pubrec, Pubrel, Pubcomp, Subscribe, Suback, Unsubscribe, Unsuback, Pingreq, Pingresp, Disconnect, Auth }

/// (type, dup, qos, retain) the standard assigns to a control byte, None if malformed; `v5` adds AUTH (15)
fn spec_header(hd: u8, v5: bool) -> Result<(Ty, bool, u8, bool), Option<u8>> {
    let nib = hd / 16;
    let fl = hd % 16;
    let fixed = |t: Ty, want: u8| if fl == want { Ok((t, false, 0, false)) } else { Err(None) };
    match nib {
        1 => fixed(Ty::Connect, 0), 2 => fixed(Ty::Connack, 0),
        3 => { let q = (fl / 2) % 4; if q == 3 { Err(Some(3)) } else { Ok((Ty::Publish, fl >= 8, q, fl % 2 == 1)) } }
        4 => fixed(Ty::Puback, 0), 5 => fixed(Ty::Pubrec, 0), 6 => fixed(Ty::Pubrel, 2), 7 => fixed(Ty::Pubcomp, 0),
        8 => fixed(Ty::Subscribe, 2), 9 => fixed(Ty::Suback, 0), 10 => fixed(Ty::Unsubscribe, 2), 11 => fixed(Ty::Unsuback, 0),
        12 => fixed(Ty::Pingreq, 0), 13 => fixed(Ty::Pingresp, 0), 14 => fixed(Ty::Disconnect, 0),
        15 if v5 => fixed(Ty::Auth, 0),
        _ => Err(None),
    }
}
fn ty3(t: v3::PacketType) -> Ty { use v3::PacketType as P; match t {
    P::Connect => Ty::Connect, P::Connack => Ty::Connack, P::Publish => Ty::Publish, P::Puback => Ty::Puback, P::Pubrec => Ty::Pubrec,
    P::Pubrel => Ty::Pubrel, P::Pubcomp => Ty::Pubcomp, P::Subscribe => Ty::Subscribe, P::Suback => Ty::Suback,
    P::Unsubscribe => Ty::Unsubscribe, P::Unsuback => Ty::Unsuback, P::Pingreq => Ty::Pingreq, P::Pingresp => Ty::Pingresp,
    P::Disconnect => Ty::Disconnect } }
fn ty5(t: v5::PacketType) -> Ty { use v5::PacketType as P; match t {
    P::Connect => Ty::Connect, P::Connack => Ty::Connack, P::Publish => Ty::Publish, P::Puback => Ty::Puback, P::Pubrec => Ty::Pubrec,
    P::Pubrel => Ty::Pubrel, P::Pubcomp => Ty::Pubcomp, P::Subscribe => Ty::Subscribe, P::Suback => Ty::Suback,
    P::Unsubscribe => Ty::Unsubscribe, P::Unsuback => Ty::Unsuback, P::Pingreq => Ty::Pingreq, P::Pingresp => Ty::Pingresp,
    P::Disconnect => Ty::Disconnect, P::Auth => Ty::Auth } }

//@ id=header.v3.new_with props=C01,C03,C04,C05,C06,C07,C08,C10,C11,C20 kind=complete tier=quick
#[kani::proof]
fn k_header_v3_new_with() {
    let hd: u8 = kani::any();
    let rl: u32 = kani::any();
    match (v3::Header::new_with(hd, rl), spec_header(hd, false)) {
        (Ok(h), Ok((t, dup, q, ret))) => {
            assert!(ty3(h.typ) == t, "C04:v3.Header.new_with:type");
            assert!(h.dup == dup && h.qos as u8 == q && h.retain == ret, "C04:v3.Header.new_with:flags");
            assert!(h.remaining_len == rl, "C04:v3.Header.new_with:remaining-length-kept");
        }
        (Err(e), Err(None)) => assert!(matches!(e, Error::InvalidHeader), "C20:v3.Header.new_with:InvalidHeader"),
        (Err(e), Err(Some(q))) => assert!(matches!(e, Error::InvalidQos(n) if n == q), "C20:v3.Header.new_with:InvalidQos(3)"),
        _ => assert!(false, "C04:v3.Header.new_with:accepts-exactly-legal-type-flag-nibbles"),
    }
}

//@ id=header.v5.new_with props=C01,C03,C04,C05,C06,C07,C08,C10,C11,C20 kind=complete tier=quick
#[kani::proof]
fn k_header_v5_new_with() {
    let hd: u8 = kani::any();
    let rl: u32 = kani::any();
    match (v5::Header::new_with(hd, rl), spec_header(hd, true)) {
        (Ok(h), Ok((t, dup, q, ret))) => {
            assert!(ty5(h.typ) == t, "C04:v5.Header.new_with:type");
            assert!(h.dup == dup && h.qos as u8 == q && h.retain == ret, "C04:v5.Header.new_with:flags");
            assert!(h.remaining_len == rl, "C04:v5.Header.new_with:remaining-length-kept");
        }
        (Err(e), Err(None)) => assert!(matches!(e, v5::ErrorV5::Common(Error::InvalidHeader)), "C20:v5.Header.new_with:InvalidHeader"),
        (Err(e), Err(Some(q))) => assert!(matches!(e, v5::ErrorV5::Common(Error::InvalidQos(n)) if n == q), "C20:v5.Header.new_with:InvalidQos(3)"),
        _ => assert!(false, "C04:v5.Header.new_with:accepts-exactly-legal-type-flag-nibbles"),
    }
}

// ---- the poll decoder reaches the header table through `<Header as PollHeader>::new_with` (src/v3/poll.rs, src/v5/poll.rs):
//      the forwarder must accept, reject and classify exactly like the table itself (C06: front ends agree on the header)
//@ id=poll.v3.new_with props=C01,C03,C04,C05,C06,C07,C08,C11,C20 kind=complete tier=quick
#[kani::proof]
fn k_poll_v3_new_with() {
    let hd: u8 = kani::any();
    let rl: u32 = kani::any();
    match (<v3::Header as crate::PollHeader>::new_with(hd, rl), spec_header(hd, false)) {
        (Ok(h), Ok((t, dup, q, ret))) => {
            assert!(ty3(h.typ) == t, "C06:v3.PollHeader.new_with:type");
            assert!(h.dup == dup && h.qos as u8 == q && h.retain == ret, "C06:v3.PollHeader.new_with:flags");
            assert!(h.remaining_len == rl, "C06:v3.PollHeader.new_with:remaining-length-kept");
        }
        (Err(e), Err(None)) => assert!(matches!(e, Error::InvalidHeader), "C20:v3.PollHeader.new_with:InvalidHeader"),
        (Err(e), Err(Some(q))) => assert!(matches!(e, Error::InvalidQos(n) if n == q), "C20:v3.PollHeader.new_with:InvalidQos(3)"),
        _ => assert!(false, "C06:v3.PollHeader.new_with:accepts-exactly-what-Header.new_with-accepts"),
    }
}

//@ id=poll.v5.new_with props=C01,C03,C04,C05,C06,C07,C08,C11,C20 kind=complete tier=quick
#[kani::proof]
fn k_poll_v5_new_with() {
    let hd: u8 = kani::any();
    let rl: u32 = kani::any();
    match (<v5::Header as crate::PollHeader>::new_with(hd, rl), spec_header(hd, true)) {
        (Ok(h), Ok((t, dup, q, ret))) => {
            assert!(ty5(h.typ) == t, "C06:v5.PollHeader.new_with:type");
            assert!(h.dup == dup && h.qos as u8 == q && h.retain == ret, "C06:v5.PollHeader.new_with:flags");
            assert!(h.remaining_len == rl, "C06:v5.PollHeader.new_with:remaining-length-kept");
        }
        (Err(e), Err(None)) => assert!(matches!(e, v5::ErrorV5::Common(Error::InvalidHeader)), "C20:v5.PollHeader.new_with:InvalidHeader"),
        (Err(e), Err(Some(q))) => assert!(matches!(e, v5::ErrorV5::Common(Error::InvalidQos(n)) if n == q), "C20:v5.PollHeader.new_with:InvalidQos(3)"),
        _ => assert!(false, "C06:v5.PollHeader.new_with:accepts-exactly-what-Header.new_with-accepts"),
    }
}

// ---------------------------------------------------------------- v5 subscription options byte (MQTT 5.0 §3.8.3.1)
//@ id=subopts.to_u8 props=C01,C09,C10,C11 kind=complete tier=quick
#[kani::proof]
fn k_subscription_options_to_u8() {
    let q: u8 = kani::any(); kani::assume(q <= 2);
    let rh: u8 = kani::any(); kani::assume(rh <= 2);
    let o = v5::SubscriptionOptions {
        max_qos: QoS::from_u8(q).unwrap(), no_local: kani::any(), retain_as_published: kani::any(),
        retain_handling: v5::RetainHandling::from_u8(rh).unwrap(),
    };
    let b = o.to_u8();
    // bits 0-1 QoS, bit 2 NL, bit 3 RAP, bits 4-5 retain handling, bits 6-7 reserved 0
    assert!(b % 4 == q, "C10:SubscriptionOptions.to_u8:qos-bits");
    assert!((b / 4) % 2 == o.no_local as u8, "C10:SubscriptionOptions.to_u8:no-local-bit");
    assert!((b / 8) % 2 == o.retain_as_published as u8, "C10:SubscriptionOptions.to_u8:rap-bit");
    assert!((b / 16) % 4 == rh, "C10:SubscriptionOptions.to_u8:retain-handling-bits");
    assert!(b / 64 == 0, "C10:SubscriptionOptions.to_u8:reserved-bits-zero");
}

// ---------------------------------------------------------------- Protocol (name, level) table (MQTT 3.1 / 3.1.1 §3.1.2.1-2, 5.0 §3.1.2.1-2)
//@ id=protocol.to_pair props=C01,C03,C06,C10,C11,C13 kind=complete tier=quick
#[kani::proof]
fn k_protocol_to_pair() {
    assert!(Protocol::V310.to_pair() == (&b"MQIsdp"[..], 3), "C10:Protocol.to_pair:V310");
    assert!(Protocol::V311.to_pair() == (&b"MQTT"[..], 4), "C10:Protocol.to_pair:V311");
    assert!(Protocol::V500.to_pair() == (&b"MQTT"[..], 5), "C10:Protocol.to_pair:V500");
    assert!(Protocol::V310 as u8 == 3 && Protocol::V311 as u8 == 4 && Protocol::V500 as u8 == 5, "C10:Protocol:level-numbers");
    assert!(Protocol::V310.encode_len() == 9 && Protocol::V311.encode_len() == 7 && Protocol::V500.encode_len() == 7, "C02:Protocol.encode_len");
}

/// simdutf8 uses runtime CPU-feature dispatch (inline asm / atomics); under Kani it is replaced by core's validator (A4)
pub(crate) fn stub_from_utf8(input: &[u8]) -> Result<&str, simdutf8::basic::Utf8Error> {
    match core::str::from_utf8(input) {
        Ok(s) => Ok(s),
        Err(_) => Err(unsafe { std::mem::transmute::<(), simdutf8::basic::Utf8Error>(()) }),
    }
}

//@ id=protocol.new props=C03,C04,C06,C11,C13,C20 kind=bounded(name<=7bytes,ascii-or-one-invalid-byte) tier=quick
#[kani::proof]
#[kani::unwind(9)]
#[kani::stub(simdutf8::basic::from_utf8, stub_from_utf8)]
fn k_protocol_new() {
    let name: [u8; 7] = kani::any();
    let n: usize = kani::any();
    kani::assume(n <= 7);
    let level: u8 = kani::any();
    let nm = &name[..n];
    let is_isdp = n == 6 && name[0] == b'M' && name[1] == b'Q' && name[2] == b'I' && name[3] == b's' && name[4] == b'd' && name[5] == b'p';
    let is_mqtt = n == 4 && name[0] == b'M' && name[1] == b'Q' && name[2] == b'T' && name[3] == b'T';
    match Protocol::new(nm, level) {
        Ok(p) => {
            assert!((is_isdp && level == 3 && p == Protocol::V310) || (is_mqtt && level == 4 && p == Protocol::V311)
                    || (is_mqtt && level == 5 && p == Protocol::V500), "C13:Protocol.new:accepts-only-the-three-pairs");
        }
        Err(e) => {
            assert!(!((is_isdp && level == 3) || (is_mqtt && (level == 4 || level == 5))), "C13:Protocol.new:accepts-the-three-pairs");
            match e {
                Error::InvalidProtocol(s, l) => { assert!(l == level, "C20:Protocol.new:InvalidProtocol-carries-level");
                                                   assert!(s.len() == n, "C20:Protocol.new:InvalidProtocol-carries-name"); }
                Error::InvalidString => {}
                _ => assert!(false, "C20:Protocol.new:error-is-InvalidProtocol-or-InvalidString"),
            }
        }
    }
}

// ---------------------------------------------------------------- error conversions (C14) and is_eof (C07)
fn any_kind() -> io::ErrorKind {
    use io::ErrorKind::*;
    let k: u8 = kani::any();
    match k { 0 => NotFound, 1 => PermissionDenied, 2 => ConnectionRefused, 3 => ConnectionReset, 4 => ConnectionAborted,
        5 => NotConnected, 6 => AddrInUse, 7 => AddrNotAvailable, 8 => BrokenPipe, 9 => AlreadyExists, 10 => WouldBlock,
        11 => InvalidInput, 12 => InvalidData, 13 => TimedOut, 14 => WriteZero, 15 => Interrupted, 16 => Unsupported,
        17 => UnexpectedEof, 18 => OutOfMemory, _ => Other }
}

//@ id=errors.conversions props=C06,C07,C14,C20 kind=complete tier=quick
#[kani::proof]
fn k_error_conversions() {
    let k = any_kind();
    // codec error -> io::Error keeps the kind; protocol errors -> InvalidData
    let e = Error::IoError(k, String::new());
    assert!(e.is_eof() == (k == io::ErrorKind::UnexpectedEof), "C07:Error.is_eof:iff-UnexpectedEof");
    let back: io::Error = e.into();
    assert!(back.kind() == k, "C14:Error->io::Error:kind-preserved");
    let p: io::Error = Error::InvalidHeader.into();
    assert!(p.kind() == io::ErrorKind::InvalidData, "C14:Error->io::Error:protocol-error-is-InvalidData");
    let p2: io::Error = Error::ZeroPid.into();
    assert!(p2.kind() == io::ErrorKind::InvalidData, "C14:Error->io::Error:protocol-error-is-InvalidData");
    assert!(!Error::InvalidHeader.is_eof() && !Error::InvalidRemainingLength.is_eof(), "C07:Error.is_eof:protocol-errors-are-not-eof");
    let e5 = v5::ErrorV5::Common(Error::IoError(k, String::new()));
    assert!(e5.is_eof() == (k == io::ErrorKind::UnexpectedEof), "C07:ErrorV5.is_eof:iff-UnexpectedEof");
    assert!(!v5::ErrorV5::InvalidPayloadFormat.is_eof() && !v5::ErrorV5::InvalidPropertyLength(0).is_eof(), "C07:ErrorV5.is_eof:protocol-errors-are-not-eof");
    let c: v5::ErrorV5 = Error::InvalidHeader.into();
    assert!(matches!(c, v5::ErrorV5::Common(Error::InvalidHeader)), "C14:Error->ErrorV5:wrapped-in-Common");
}

// ---------------------------------------------------------------- VarBytes::as_ref and the fixed-size encoder arms (C09, C01, C02)
//@ id=varbytes.as_ref props=C01,C02,C09,C10 kind=complete tier=quick
#[kani::proof]
fn k_varbytes_as_ref() {
    let a: [u8; 2] = kani::any();
    let b: [u8; 4] = kani::any();
    let va = VarBytes::Fixed2(a);
    let vb = VarBytes::Fixed4(b);
    let ra: &[u8] = va.as_ref();
    let rb: &[u8] = vb.as_ref();
    assert!(ra.len() == 2 && ra[0] == a[0] && ra[1] == a[1], "C09:VarBytes.as_ref:Fixed2");
    assert!(rb.len() == 4 && rb[0] == b[0] && rb[1] == b[1] && rb[2] == b[2] && rb[3] == b[3], "C09:VarBytes.as_ref:Fixed4");
}

// (the fixed-size arms of Packet::encode — PUBACK..UNSUBACK, CONNACK, PING*, DISCONNECT — are proved in the Verus
//  units v3/v5: under CBMC the whole Packet::encode match, with every Vec-based arm, did not finish in 100 s.)
